"""SH1 -- shape typing of the broadcasting kernel (C04)."""
import itertools

import ast
from ..project import AnalysisError, loc
from ..shape import (AArr, AScal, DataDependent, Interp, ShapeError,
                     Unsupported, bshape)

CORE = "geometry_tools/utils/core.py"

UNITS = [("vector", 1, ("n",)), ("pointpair/polygon", 2, ("k", "n")),
         ("transformation", 2, ("n", "n")), ("aux-edges", 3, ("k", 2, "n"))]
MODES = ["elementwise", "pairwise", "pairwise_reversed"]


def _ones_variants(shape, full):
    """Replace subsets of axes by literal 1 (size-1 composite axes)."""
    n = len(shape)
    if n == 0:
        return [tuple(shape)]
    subsets = []
    if full:
        for k in range(n + 1):
            subsets += list(itertools.combinations(range(n), k))
    else:
        subsets = [()] + [(i,) for i in range(n)]
    out = []
    for s in subsets:
        out.append(tuple(1 if i in s else d for i, d in enumerate(shape)))
    return out


def configs(tier):
    R = 2 if tier == "quick" else 3
    full = tier != "quick"
    for (uname, und, unit), mode in itertools.product(UNITS, MODES):
        for i in range(R + 1):
            for j in range(R + 1):
                if mode == "elementwise":
                    o1 = tuple(f"X{r}" for r in range(i, 0, -1))
                    o2 = tuple(f"X{r}" for r in range(j, 0, -1))
                else:
                    o1 = tuple(f"A{r}" for r in range(1, i + 1))
                    o2 = tuple(f"C{r}" for r in range(1, j + 1))
                for v1 in _ones_variants(o1, full):
                    for v2 in _ones_variants(o2, full):
                        yield uname, und, unit, mode, v1, v2


def expected(unit, mode, o1, o2):
    if mode == "elementwise":
        outer = bshape(o1, o2)
    elif mode == "pairwise":
        outer = tuple(o1) + tuple(o2)
    else:
        outer = tuple(o2) + tuple(o1)
    return outer + tuple(unit)


def rule_sh1(ctx):
    r = ctx.r
    r.rule("SH1", "abstract interpretation of utils.core.matrix_product / "
                  "expand_unit_axes / squeeze_excess / broadcast_match over "
                  "symbolic shapes: for every rank configuration the result "
                  "shape (and thereby the provenance of every axis) is the "
                  "documented one: elementwise -> broadcast(outer1, outer2) "
                  "+ unit; pairwise -> outer1 + outer2 + unit; "
                  "pairwise_reversed -> outer2 + outer1 + unit")
    m = ctx.p.module_by_rel(CORE)
    for fn in ("matrix_product", "expand_unit_axes", "squeeze_excess",
               "broadcast_match"):
        f = ctx.p.get_function(CORE, fn)
        r.analysed(f)
    mp = ctx.p.get_function(CORE, "matrix_product")
    it = Interp(m.tree)
    total = 0
    fails = {}
    samples = []
    for uname, und, unit, mode, o1, o2 in configs(ctx.tier):
        total += 1
        a1 = AArr(tuple(o1) + tuple(unit))
        a2 = AArr(tuple(o2) + ("n", "n"))
        want = expected(unit, mode, o1, o2)
        cfg = (f"{uname} {a1.shape} x matrices {a2.shape} "
               f"[{mode}]")
        try:
            got = it.call("matrix_product", [a1, a2, und, 2],
                          {"broadcast": mode})
            if not isinstance(got, AArr):
                raise ShapeError(f"returned {got!r}")
            if got.shape != want:
                raise ShapeError(f"result shape {got.shape}, documented "
                                 f"{want}")
            if len(samples) < 6 and total % 37 == 1:
                samples.append(f"{cfg} -> {got.shape}")
        except DataDependent as e:
            fails.setdefault((mode, uname, "data-dependent"), []).append(
                (cfg, str(e)))
        except ShapeError as e:
            fails.setdefault((mode, uname, "shape"), []).append((cfg, str(e)))
    r.extra["SH1_configurations"] = total
    r.extra["SH1_samples"] = samples
    by_mode = {}
    for (mode, uname, kind), lst in fails.items():
        by_mode.setdefault(mode, []).append((uname, kind, lst))
    for mode in MODES:
        for uname, und, unit in UNITS:
            inst = f"matrix_product[{mode}; {uname}]"
            bad = [x for x in by_mode.get(mode, []) if x[0] == uname]
            if not bad:
                r.ok("SH1", inst, loc(mp, mp.node), "",
                     "all rank configurations give the documented shape")
            else:
                _, kind, lst = bad[0]
                cfg, why = lst[0]
                r.violation(
                    "SH1", f"{mp.fq}|{mode}|{uname}", loc(mp, mp.node),
                    f"matrix_product(..., broadcast='{mode}')",
                    f"{len(lst)} rank configuration(s) fail for {uname} "
                    f"units; first: {cfg}: {why}. Axis bookkeeping of the "
                    "kernel no longer matches the documented layout, so "
                    "entry [i][j] of a composite result is not "
                    "transformation j applied to unit i",
                    instance=inst)
    # broadcast_match
    bm = ctx.p.get_function(CORE, "broadcast_match")
    R = 2 if ctx.tier == "quick" else 3
    nb = 0
    bad = []
    for i in range(R + 1):
        for j in range(R + 1):
            N = tuple(f"N{r}" for r in range(1, i + 1))
            M = tuple(f"M{r}" for r in range(1, j + 1))
            for vN in _ones_variants(N, ctx.tier != "quick"):
                for vM in _ones_variants(M, ctx.tier != "quick"):
                    nb += 1
                    a1 = AArr(vN + ("l1", "l2"))
                    a2 = AArr(vM + ("p1", "p2"))
                    try:
                        got = it.call("broadcast_match", [a1, a2, 2])
                        w1 = vN + vM + ("l1", "l2")
                        w2 = vN + vM + ("p1", "p2")
                        if not (isinstance(got, tuple) and len(got) == 2
                                and got[0].shape == w1 and got[1].shape == w2):
                            raise ShapeError(
                                f"returned {got}, documented ({w1}, {w2})")
                    except (ShapeError, DataDependent) as e:
                        bad.append((f"{a1.shape}, {a2.shape}", str(e)))
    r.extra["SH1_broadcast_match_configurations"] = nb
    if not bad:
        r.ok("SH1", "broadcast_match", loc(bm, bm.node), "",
             f"{nb} configurations give (N.., M.., unit) for both outputs")
    else:
        r.violation("SH1", f"{bm.fq}|shapes", loc(bm, bm.node),
                    "broadcast_match",
                    f"{len(bad)} configuration(s) fail; first: {bad[0][0]}: "
                    f"{bad[0][1]}", instance="broadcast_match")
    return total


# ---------------------------------------------------------------------------
# SH2: vectorised helpers preserve the composite (outer) shape

HYP = "geometry_tools/hyperbolic.py"
LIE = "geometry_tools/lie/core.py"


def _outer_shapes(tier):
    R = 2 if tier == "quick" else 3
    base = [tuple(f"A{i}" for i in range(1, k + 1)) for k in range(R + 1)]
    out = list(base)
    # size-1 composite axes
    for b in base:
        for i in range(len(b)):
            out.append(tuple(1 if j == i else d for j, d in enumerate(b)))
    return out


def rule_sh2(ctx, only=None):
    r = ctx.r
    r.rule("SH2", "abstract interpretation of the vectorised helpers "
                  "(apply_bilinear, normsq, normalize, projection, "
                  "indefinite_orthogonalize, sphere_inversion, "
                  "circle_angles, the model chart maps, "
                  "Segment/TangentVector._compute_aux_data, "
                  "project_to_hyperboloid) over symbolic composite shapes "
                  "of every rank: the result carries exactly the outer "
                  "axes of the input, each from its own input axis")
    core = ctx.p.module_by_rel(CORE)
    hyp = ctx.p.module_by_rel(HYP)
    it_core = Interp(core.tree)
    it_hyp = Interp(hyp.tree, extra_trees=(("utils", core.tree),))
    seg = ctx.p.get_function(HYP, "Segment._compute_aux_data")
    tv = ctx.p.get_function(HYP, "TangentVector._compute_aux_data")
    N = ("n",)
    F = AArr(("n", "n"))

    def c(name):
        return lambda *a: it_core.call(name, list(a))

    def h(name):
        return lambda *a: it_hyp.call(name, list(a))
    table = [
        ("utils.apply_bilinear", CORE, "apply_bilinear",
         lambda O: c("apply_bilinear")(AArr(O + N), AArr(O + N), F),
         lambda O: O),
        ("utils.apply_bilinear(euclidean)", CORE, "apply_bilinear",
         lambda O: c("apply_bilinear")(AArr(O + N), AArr(O + N)),
         lambda O: O),
        ("utils.apply_bilinear(composite, single)", CORE, "apply_bilinear",
         lambda O: c("apply_bilinear")(AArr(O + N), AArr(N), F),
         lambda O: O),
        ("utils.normsq", CORE, "normsq",
         lambda O: c("normsq")(AArr(O + N), F), lambda O: O),
        ("utils.normalize", CORE, "normalize",
         lambda O: c("normalize")(AArr(O + N), F), lambda O: O + N),
        ("utils.projection", CORE, "projection",
         lambda O: c("projection")(AArr(O + N), AArr(O + N), F),
         lambda O: O + N),
        ("utils.indefinite_orthogonalize", CORE, "indefinite_orthogonalize",
         lambda O: c("indefinite_orthogonalize")(F, AArr(O + (2, "n"))),
         lambda O: O + (2, "n")),
        ("utils.sphere_inversion", CORE, "sphere_inversion",
         lambda O: c("sphere_inversion")(AArr(O + N)), lambda O: O + N),
        ("utils.circle_angles", CORE, "circle_angles",
         lambda O: c("circle_angles")(AArr(O + (2,)), AArr(O + ("k", 2))),
         lambda O: O + ("k",)),
        ("utils.short_arc", CORE, "short_arc",
         lambda O: c("short_arc")(AArr(O + (2,))), lambda O: O + (2,)),
        ("utils.right_to_left", CORE, "right_to_left",
         lambda O: c("right_to_left")(AArr(O + (2,))), lambda O: O + (2,)),
        ("utils.arc_include", CORE, "arc_include",
         lambda O: c("arc_include")(AArr(O + (2,)), AArr(O)),
         lambda O: O + (2,)),
        ("utils.order_eigs", CORE, "order_eigs",
         lambda O: c("order_eigs")(AArr(O + N), AArr(O + ("n", "n"))),
         lambda O: (O + N, O + ("n", "n"))),
        ("utils.sphere_through", CORE, "sphere_through",
         lambda O: c("sphere_through")(AArr(O + (3, 2))),
         lambda O: (O + (2,), O)),
        ("utils.circle_through", CORE, "circle_through",
         lambda O: c("circle_through")(AArr(O + (2,)), AArr(O + (2,)),
                                       AArr(O + (2,))),
         lambda O: (O + (2,), O)),
        ("utils.find_isometry", CORE, "find_isometry",
         lambda O: c("find_isometry")(AArr((3, 3)), AArr(O + (2, 3))),
         lambda O: O + (3, 3)),
        ("utils.find_isometry(force_oriented)", CORE, "find_isometry",
         lambda O: c("find_isometry")(AArr((3, 3)), AArr(O + (2, 3)), True),
         lambda O: O + (3, 3)),
        ("utils.orthogonal_complement", CORE, "orthogonal_complement",
         lambda O: c("orthogonal_complement")(AArr(O + (2, 3)),
                                              AArr((3, 3))),
         lambda O: O + (1, 3)),
        ("utils.construct_diagonal", CORE, "construct_diagonal",
         lambda O: c("construct_diagonal")(AArr(O + (3,))),
         lambda O: O + (3, 3)),
        ("utils.permute_along_axis", CORE, "permute_along_axis",
         lambda O: it_core.call("permute_along_axis",
                                [AArr(O + (3, 3)), AArr(O + (3,)), -1],
                                {"inverse": True}),
         lambda O: O + (3, 3)),
        ("utils.permute_along_axis(scatter)", CORE, "permute_along_axis",
         lambda O: it_core.call("permute_along_axis",
                                [AArr(O + (3, 3)), AArr(O + (3,)), -2],
                                {"inverse": False}),
         lambda O: O + (3, 3)),
        ("kleinian_to_poincare", HYP, "kleinian_to_poincare",
         lambda O: h("kleinian_to_poincare")(AArr(O + N)), lambda O: O + N),
        ("poincare_to_kleinian", HYP, "poincare_to_kleinian",
         lambda O: h("poincare_to_kleinian")(AArr(O + N)), lambda O: O + N),
        ("poincare_to_halfspace", HYP, "poincare_to_halfspace",
         lambda O: h("poincare_to_halfspace")(AArr(O + N)), lambda O: O + N),
        ("halfspace_to_poincare", HYP, "halfspace_to_poincare",
         lambda O: h("halfspace_to_poincare")(AArr(O + N)), lambda O: O + N),
        ("hyperboloid_coords", HYP, "hyperboloid_coords",
         lambda O: h("hyperboloid_coords")(AArr(O + N)), lambda O: O + N),
        ("project_to_hyperboloid", HYP, "project_to_hyperboloid",
         lambda O: h("project_to_hyperboloid")(AArr(O + N), AArr(O + N), F),
         lambda O: O + N),
        ("Segment._compute_aux_data", HYP, "Segment._compute_aux_data",
         lambda O: it_hyp.call_node(seg.node, [None, AArr(O + (2, "n"))]),
         lambda O: O + (2, "n")),
        ("TangentVector._compute_aux_data", HYP,
         "TangentVector._compute_aux_data",
         lambda O: it_hyp.call_node(tv.node, [None, AArr(O + (2, "n"))]),
         lambda O: O + (2, "n")),
    ]
    outers = _outer_shapes(ctx.tier)
    total = 0
    for label, rel, q, run, want in table:
        if only is not None and q not in only:
            continue
        f = ctx.p.get_function(rel, q)
        r.analysed(f)
        bad = []
        for O in outers:
            if label.endswith("kleinian_to_poincare") and False:
                continue
            total += 1
            try:
                got = run(O)
                w = want(O)
                if w and isinstance(w[0], tuple):
                    # a rank-0 component may come back as a NumPy scalar
                    gs = tuple(x.shape if isinstance(x, AArr) else
                               () if isinstance(x, AScal) else None
                               for x in got) if isinstance(got, tuple) \
                        else None
                    if gs != tuple(tuple(x) for x in w):
                        raise ShapeError(f"result shapes {gs}, expected {w}")
                    continue
                w = tuple(w)
                gs = got.shape if isinstance(got, AArr) else None
                # a rank-0 result may come back as a scalar
                if gs is None and w == ():
                    continue
                if label in ("kleinian_to_poincare", "poincare_to_kleinian") \
                        and O == ():
                    pass
                if gs != w:
                    raise ShapeError(f"result shape {gs}, expected {w}")
            except DataDependent as e:
                bad.append((O, str(e)))
            except ShapeError as e:
                bad.append((O, str(e)))
        inst = f"SH2:{label}"
        if not bad:
            r.ok("SH2", inst, loc(f, f.node), "",
                 f"{len(outers)} composite shapes keep their outer axes")
        else:
            O, why = bad[0]
            r.violation(
                "SH2", f"{f.fq}|{label}", loc(f, f.node), label,
                f"{len(bad)} of {len(outers)} composite shapes fail; first: "
                f"outer shape {O}: {why}. The vectorised result is not the "
                "per-unit result at each index (axes are mixed or the call "
                "raises for composites of this rank)", instance=inst)
    r.extra["SH2_evaluations"] = total
    return total


# ---------------------------------------------------------------------------
# AX1: axis discipline in vectorised code


# np.sort / np.argsort / np.diff default to the LAST axis (safe); the calls
# below default to all axes / the flattened array
AXIS_FUNCS = {"np.flip": 1, "np.roll": 2, "np.cumsum": 1, "np.cumprod": 1,
              "np.squeeze": 1,
              # counts / sums: without an axis they merge all units
              "np.count_nonzero": 1, "np.sum": 1, "np.mean": 1, "np.prod": 1,
              # a norm over every axis is one number for the whole composite
              "np.linalg.norm": 1, "np.max": 1, "np.min": 1, "np.amax": 1,
              "np.amin": 1}
AXIS_METHODS = {"squeeze", "cumsum", "sum", "mean", "prod"}
AXIS_REDUCTIONS = {"np.count_nonzero", "np.sum", "np.mean", "np.prod", "sum",
                   "mean", "prod", "np.linalg.norm", "np.max", "np.min",
                   "np.amax", "np.amin"}
# functions whose argument is one-dimensional by construction, or that belong
# to a not-applicable property (reason frozen per entry)
AX1_EXEMPT = {}


def rule_ax1(ctx, rels, scope=None):
    import ast
    from ..flow import dotted
    from ..project import norm_stmt
    r = ctx.r
    r.rule("AX1", "in vectorised code a reordering / cumulative / squeezing / "
                  "counting NumPy call whose default is every axis / the "
                  "flattened array (np.flip, np.roll, np.cumsum, np.squeeze, "
                  "np.count_nonzero, np.sum, np.mean, np.prod, "
                  "np.linalg.norm, np.max / np.min) names its "
                  "axis; so does np.concatenate / np.append of leading-axis "
                  "slices of a data array (`x[1:]`, `x[:1]`: the cyclic-"
                  "shift idiom shifts the first OUTER axis of a composite); "
                  "np.sort / np.argsort default to the last axis and "
                  "are not concerned")
    n = 0
    for rel in rels:
        m = ctx.p.module_by_rel(rel)
        for f in ctx.p.all_functions:
            if f.module is not m or f.parent is not None:
                continue
            if scope is not None and f not in scope:
                continue
            for c in ast.walk(f.node):
                if not isinstance(c, ast.Call):
                    continue
                nm = dotted(c.func)
                kws = {k.arg for k in c.keywords}
                hit = False
                if nm in ("np.concatenate", "np.append") and c.args:
                    # joining pieces of DATA arrays (slices / parts of an
                    # array whose leading axes are the composite's): the
                    # default axis 0 is the first outer axis, not the unit's.
                    # Explicit lists / 1-d builders (np.ones(k)) are 1-d by
                    # construction and not concerned
                    seq = c.args[0]
                    elts = list(seq.elts) if isinstance(
                        seq, (ast.List, ast.Tuple)) else []
                    if nm == "np.append":
                        elts = list(c.args[:2])
                    data_like = [e for e in elts
                                 if isinstance(e, ast.Subscript)
                                 and isinstance(e.slice, ast.Slice)]
                    if not data_like:
                        continue
                    n += 1
                    if "axis" not in kws and len(c.args) <= (
                            2 if nm == "np.append" else 1):
                        hit = True
                elif nm in AXIS_FUNCS:
                    n += 1
                    if "axis" not in kws and len(c.args) <= AXIS_FUNCS[nm]:
                        hit = True
                elif isinstance(c.func, ast.Attribute) \
                        and c.func.attr in AXIS_METHODS \
                        and not nm.startswith(("np.", "utils.")):
                    n += 1
                    if "axis" not in kws and not c.args:
                        hit = True
                else:
                    continue
                r.analysed(f)
                inst = f"{f.qualname}:{dotted(c)[:60]}"
                if not hit:
                    r.ok("AX1", inst, loc(f, c), dotted(c)[:100],
                         "axis is given")
                elif f.name in AX1_EXEMPT:
                    r.note("AX1", loc(f, c), dotted(c)[:100],
                           "axis-less call, exempt: " + AX1_EXEMPT[f.name])
                else:
                    parents = f.module.parents
                    st = c
                    while not isinstance(st, ast.stmt):
                        st = parents[st]
                    r.violation(
                        "AX1", f"{f.fq}|{norm_stmt(st)[:100]}", loc(f, c),
                        norm_stmt(st)[:160],
                        f"`{dotted(c)[:60]}` has no axis: on a composite "
                        "(more than one unit) it " + (
                            "counts / adds up over all units at once, so one "
                            "decision or value is shared by units that need "
                            "different ones"
                            if (nm in AXIS_REDUCTIONS or nm.split(".")[-1]
                                in AXIS_REDUCTIONS) else
                            "reorders across units as well as within them, "
                            "so values are exchanged between different "
                            "units of the array"),
                        instance=inst)
    if n == 0:
        r.note("AX1", ",".join(rels), "", "no axis-sensitive call in scope")


# ---------------------------------------------------------------------------
# SH3: Transformation.apply end to end, on abstract objects


PROJ_REL = "geometry_tools/projective.py"


def rule_sh3(ctx):
    from ..shape import AObj, AttributeErrorSim
    r = ctx.r
    r.rule("SH3", "Transformation.apply interpreted end to end on abstract "
                  "objects (three slots known by symbolic shape): for every "
                  "object kind, rank pair and broadcast mode each slot of "
                  "the result has the documented composite shape followed "
                  "by that slot's own unit shape")
    core = ctx.p.module_by_rel(CORE)
    proj = ctx.p.module_by_rel(PROJ_REL)
    it = Interp(proj.tree, extra_trees=(("utils", core.tree),))
    it.project = ctx.p
    it.rel_prefix = {PROJ_REL: "", CORE: "utils"}
    T = ctx.p.get_class(PROJ_REL, "Transformation")
    ap = ctx.p.get_function(PROJ_REL, "Transformation.apply")
    r.analysed(ap, ctx.p.get_function(PROJ_REL, "Transformation._apply_to_data"))
    kinds = [
        ("Point", dict(proj=("n",), unit_ndims=1)),
        ("PointPair", dict(proj=(2, "n"), unit_ndims=2)),
        ("Polygon", dict(proj=("k", "n"), aux=("k", 2, "n"), unit_ndims=2,
                         aux_ndims=3)),
        ("Segment-like", dict(proj=(2, "n"), aux=(2, "n"), unit_ndims=2,
                              aux_ndims=2)),
        ("ConvexPolygon", dict(proj=("k", "n"), aux=("k", 2, "n"),
                               dual=("n",), unit_ndims=2, aux_ndims=3,
                               dual_ndims=1)),
        ("Transformation", dict(proj=("n", "n"), unit_ndims=2)),
    ]
    R = 2 if ctx.tier == "quick" else 3
    total = 0
    for kname, spec in kinds:
        cls = ctx.p.get_class(PROJ_REL, kname) if kname in (
            "Point", "PointPair", "Polygon", "ConvexPolygon",
            "Transformation") else ctx.p.get_class(PROJ_REL, "PointPair")
        bad = []
        for mode in MODES:
            for i in range(R + 1):
                for j in range(R + 1):
                    if mode == "elementwise":
                        O = tuple(f"X{q}" for q in range(i, 0, -1))
                        C = tuple(f"X{q}" for q in range(j, 0, -1))
                    else:
                        O = tuple(f"A{q}" for q in range(1, i + 1))
                        C = tuple(f"C{q}" for q in range(1, j + 1))
                    total += 1
                    obj = AObj(
                        cls,
                        proj=AArr(O + spec["proj"]),
                        aux=AArr(O + spec["aux"]) if "aux" in spec else None,
                        dual=AArr(O + spec["dual"]) if "dual" in spec else None,
                        unit_ndims=spec["unit_ndims"],
                        aux_ndims=spec.get("aux_ndims", 0),
                        dual_ndims=spec.get("dual_ndims", 0))
                    tr = AObj(T, proj=AArr(C + ("n", "n")), unit_ndims=2)
                    try:
                        res = it.call_node(ap.node, [tr, obj, mode])
                        if not isinstance(res, AObj):
                            raise ShapeError(f"returned {res!r}")
                        for slot in ("proj", "aux", "dual"):
                            if slot not in spec:
                                continue
                            got = getattr(res, slot + "_data")
                            want = expected(spec[slot], mode, O, C)
                            if not isinstance(got, AArr) or got.shape != want:
                                raise ShapeError(
                                    f"{slot} data of the result has shape "
                                    f"{getattr(got, 'shape', got)}, "
                                    f"documented {want}")
                        if res is obj:
                            raise ShapeError("the argument object itself "
                                             "was modified and returned")
                    except (ShapeError, DataDependent) as e:
                        bad.append((f"{kname} {O}+unit x transformations "
                                    f"{C} [{mode}]", str(e)))
                    except AttributeErrorSim as e:
                        bad.append((f"{kname} {O} [{mode}]",
                                    f"AttributeError: {e}"))
        inst = f"apply[{kname}]"
        if not bad:
            r.ok("SH3", inst, loc(ap, ap.node), "",
                 "all rank pairs x 3 modes: every slot has the documented "
                 "shape")
        else:
            r.violation(
                "SH3", f"{ap.fq}|{kname}", loc(ap, ap.node),
                f"Transformation.apply on {kname}",
                f"{len(bad)} configuration(s) fail; first: {bad[0][0]}: "
                f"{bad[0][1]}. The transformed object's data no longer has "
                "the composite shape of the object (and, for pairwise "
                "modes, of the transformations) with each slot keeping its "
                "own unit shape", instance=inst)
    r.extra["SH3_configurations"] = total
    return total


def rule_sh4(ctx):
    from ..shape import AObj, AttributeErrorSim
    r = ctx.r
    r.rule("SH4", "Subspace.intersect interpreted on abstract subspaces: "
                  "elementwise -> broadcast(outer1, outer2) + (q, n); "
                  "pairwise -> outer1 + outer2 + (q, n) (q = dimension of "
                  "the intersection)")
    core = ctx.p.module_by_rel(CORE)
    proj = ctx.p.module_by_rel(PROJ_REL)
    it = Interp(proj.tree, extra_trees=(("utils", core.tree),))
    it.project = ctx.p
    it.rel_prefix = {PROJ_REL: "", CORE: "utils"}
    S = ctx.p.get_class(PROJ_REL, "Subspace")
    it.ctor_classes = {"Subspace": (S, 2)}
    f = ctx.p.get_function(PROJ_REL, "Subspace.intersect")
    r.analysed(f)
    R = 2 if ctx.tier == "quick" else 3
    bad = []
    total = 0
    for mode in ("elementwise", "pairwise"):
        for i in range(R + 1):
            for j in range(R + 1):
                if mode == "elementwise":
                    if i != j:
                        continue     # documented: same composite shape
                    O1 = tuple(f"X{q}" for q in range(i, 0, -1))
                    O2 = tuple(f"X{q}" for q in range(j, 0, -1))
                else:
                    O1 = tuple(f"N{q}" for q in range(1, i + 1))
                    O2 = tuple(f"M{q}" for q in range(1, j + 1))
                total += 1
                a = AObj(S, proj=AArr(O1 + ("k1", "n")), unit_ndims=2)
                b = AObj(S, proj=AArr(O2 + ("k2", "n")), unit_ndims=2)
                want = (bshape(O1, O2) if mode == "elementwise"
                        else O1 + O2) + ("q", "n")
                try:
                    res = it.call_node(f.node, [a, b, mode])
                    got = res.proj_data.shape if isinstance(res, AObj) else None
                    if got != want:
                        raise ShapeError(f"result shape {got}, documented "
                                         f"{want}")
                except (ShapeError, DataDependent) as e:
                    bad.append((f"{O1}+(k1,n) with {O2}+(k2,n) [{mode}]",
                                str(e)))
                except AttributeErrorSim as e:
                    bad.append((f"{O1} [{mode}]", f"AttributeError {e}"))
    r.extra["SH4_configurations"] = total
    if not bad:
        r.ok("SH4", "Subspace.intersect", loc(f, f.node), "",
             f"{total} configurations give the documented shape")
    else:
        r.violation(
            "SH4", f"{f.fq}|shapes", loc(f, f.node), "Subspace.intersect",
            f"{len(bad)} of {total} configurations fail; first: "
            f"{bad[0][0]}: {bad[0][1]}. In pairwise mode the kernel "
            "coefficients (computed from the tiled spans) and the spanning "
            "set they multiply no longer have matching composite axes, so "
            "result[i, j] is not self[i] meet other[j]",
            instance="Subspace.intersect")


rule_sh1.fatal_unsupported = True


# ---------------------------------------------------------------------------
# SH5: hyperbolic objects interpreted end to end

HYP_UNITS = {"Point": 1, "IdealPoint": 1, "DualPoint": 1, "Geodesic": 2,
             "Segment": 2, "Subspace": 2, "Hyperplane": 2,
             "TangentVector": 2, "Isometry": 2, "PointPair": 2,
             "Horosphere": 2, "HorosphereArc": 2, "BoundaryArc": 2,
             "Polygon": 2}
HYP_AUX = {"Segment": 2, "TangentVector": 2}
AFFINE_MODELS = ("Model.KLEIN", "Model.POINCARE", "Model.HALFSPACE")


def _hyp_ctor(it, cls, args, kw):
    """Constructor model for the hyperbolic classes: the object keeps the
    array it is given (coordinates in an affine model gain the homogeneous
    coordinate); the class's unit rank comes from HYP_UNITS."""
    from ..shape import AObj, dim_add
    if cls.name not in HYP_UNITS:
        raise Unsupported(f"constructor {cls.name}")
    if not args:
        raise Unsupported(f"constructor {cls.name} without data")
    a0 = args[0]
    und = HYP_UNITS[cls.name]
    if isinstance(a0, AObj) and not (len(args) > 1 and isinstance(
            args[1], (AArr, AObj))):
        o = a0.clone()
        o.cls = cls
        o.unit_ndims = und
        aund = HYP_AUX.get(cls.name, 0)
        if aund and not isinstance(o.aux_data, AArr) \
                and isinstance(o.proj_data, AArr):
            m = it.find_method(o, "_compute_aux_data")
            if m is None:
                raise Unsupported(f"{cls.name}._compute_aux_data not found")
            o.aux_ndims = aund
            o.aux_data = it.call_node(m, [o, o.proj_data])
        elif not aund:
            o.aux_data, o.aux_ndims = None, 0
        return o
    if len(args) > 1 and isinstance(args[1], (AArr, AObj)) and cls.name in (
            "Geodesic", "Segment", "PointPair", "TangentVector",
            "Horosphere", "BoundaryArc"):
        d0 = a0.proj_data if isinstance(a0, AObj) else a0
        d1 = args[1].proj_data if isinstance(args[1], AObj) else args[1]
        if not isinstance(d0, AArr) or not isinstance(d1, AArr):
            raise Unsupported(f"{cls.name}(p1, p2) of {d0!r}, {d1!r}")
        if d1.shape != d0.shape:
            raise ShapeError(f"{cls.name}(p1, p2) with shapes {d0.shape} "
                             f"and {d1.shape}")
        a0 = AArr(d0.shape[:-1] + (2, d0.shape[-1]))
    if not isinstance(a0, AArr):
        raise Unsupported(f"constructor {cls.name} of {a0!r}")
    if cls.name == "Hyperplane":
        sh = a0.shape
        if len(sh) >= 2 and sh[-1] == sh[-2]:
            return AObj(cls, proj=a0, unit_ndims=2)
        if len(sh) == 1 or (len(sh) >= 2 and sh[-2] == 1):
            # normal vector(s): (n,) or (..., 1, n)
            outer = sh[:-2] if len(sh) >= 2 else ()
            return AObj(cls, proj=AArr(outer + (sh[-1], sh[-1])),
                        unit_ndims=2)
        raise ShapeError(f"Hyperplane built from an array of shape {sh}: "
                         "neither (..., n, n) hyperplane data nor (..., 1, n)"
                         " normals (an (k, n) stack of normals is read as "
                         "the data of ONE hyperplane when k == n)")
    model = kw.get("model", args[1] if len(args) > 1 and isinstance(
        args[1], str) else "Model.PROJECTIVE")
    sh = a0.shape
    if isinstance(model, str) and not model.startswith("Model."):
        # the string aliases accepted by the Model enum
        model = {"klein": "Model.KLEIN", "affin": "Model.KLEIN",
                 "poinc": "Model.POINCARE", "halfs": "Model.HALFSPACE",
                 "halfp": "Model.HALFSPACE", "hyper": "Model.HYPERBOLOID",
                 "proje": "Model.PROJECTIVE"}.get(model.lower()[:5], model)
    if model in AFFINE_MODELS:
        sh = sh[:-1] + (dim_add(sh[-1], 1),)
    if len(sh) < und:
        raise ShapeError(f"{cls.name} built from an array of shape {sh}: "
                         f"fewer than its {und} unit axes")
    if sh == a0.shape:
        pd = a0                      # the object keeps the array it is given
    elif model in AFFINE_MODELS and it.homt is not None \
            and getattr(a0, "hom", None) is not None \
            and (a0.hom.invariant or a0.hom.wild):
        from ..hom import Hom
        pd = AArr(sh, Hom((), False))   # (1, x): a fixed representative
    else:
        pd = AArr(sh)
    o = AObj(cls, proj=pd, unit_ndims=und)
    aund = HYP_AUX.get(cls.name, 0)
    if aund:
        m = it.find_method(o, "_compute_aux_data")
        if m is None:
            raise Unsupported(f"{cls.name}._compute_aux_data not found")
        o.aux_ndims = aund
        o.aux_data = it.call_node(m, [o, o.proj_data])
    return o


def _sh5_table():
    N, N1 = ("n",), ("n-1",)
    P = "Model.POINCARE"
    H = "Model.HALFSPACE"
    K = "Model.KLEIN"
    PR = "Model.PROJECTIVE"
    HB = "Model.HYPERBOLOID"
    pt = dict(cls="Point", proj=N, und=1)
    geo = dict(cls="Geodesic", proj=(2, "n"), und=2)
    geo3 = dict(cls="Geodesic", proj=(2, 3), und=2)
    seg = dict(cls="Segment", proj=(2, "n"), aux=(2, "n"), und=2, aund=2)
    seg3 = dict(cls="Segment", proj=(2, 3), aux=(2, 3), und=2, aund=2)
    sub = dict(cls="Subspace", proj=("k", "n"), und=2)
    sub34 = dict(cls="Subspace", proj=(3, 4), und=2)
    horo = dict(cls="Horosphere", proj=(2, "n"), und=2)
    arc3 = dict(cls="HorosphereArc", proj=(3, 3), und=2)
    barc3 = dict(cls="BoundaryArc", proj=(3, 3), und=2)
    tv = dict(cls="TangentVector", proj=(2, "n"), aux=(2, "n"), und=2,
              aund=2)
    tv3 = dict(cls="TangentVector", proj=(2, 3), aux=(2, 3), und=2, aund=2)
    circ = lambda O: (O + (2,), O, O + (2,))
    sph = lambda O: (O + N1, O)
    t = []
    for m, u in ((K, N1), (P, N1), (H, N1), (PR, N), (HB, N)):
        t.append((f"Point.coords({m})", pt, "coords", [m], {},
                  (lambda u: lambda O: O + u)(u)))
    t.append(("Point.distance", pt, "distance", ["@same"], {}, lambda O: O))
    for m in (K, P, H):
        t.append((f"Subspace.ideal_basis_coords({m})", sub,
                  "ideal_basis_coords", [m], {}, lambda O: O + ("k", "n-1")))
        t.append((f"Segment.endpoint_coords({m})", seg, "endpoint_coords",
                  [m], {}, lambda O: O + (2, "n-1")))
        t.append((f"Segment.ideal_endpoint_coords({m})", seg,
                  "ideal_endpoint_coords", [m], {},
                  lambda O: O + (2, "n-1")))
        t.append((f"Horosphere.center_coords({m})", horo, "center_coords",
                  [m], {}, lambda O: O + N1))
        t.append((f"Horosphere.ref_coords({m})", horo, "ref_coords", [m],
                  {}, lambda O: O + N1))
    for m in (P, H):
        t.append((f"Subspace.sphere_parameters({m})", sub,
                  "sphere_parameters", [], {"model": m}, sph))
        t.append((f"Geodesic.sphere_parameters({m})", geo,
                  "sphere_parameters", [], {"model": m}, sph))
        t.append((f"Segment.sphere_parameters({m})", seg,
                  "sphere_parameters", [], {"model": m}, sph))
        t.append((f"Horosphere.sphere_parameters({m})", horo,
                  "sphere_parameters", [], {"model": m}, sph))
        for deg in (True, False):
            t.append((f"Geodesic.circle_parameters({m}, degrees={deg})",
                      geo3, "circle_parameters", [],
                      {"model": m, "degrees": deg}, circ))
            t.append((f"Segment.circle_parameters({m}, degrees={deg})",
                      seg3, "circle_parameters", [],
                      {"model": m, "degrees": deg}, circ))
            t.append((f"HorosphereArc.circle_parameters({m}, degrees={deg})",
                      arc3, "circle_parameters", [],
                      {"model": m, "degrees": deg}, circ))
            if m == P:
                t.append((f"BoundaryArc.circle_parameters({m}, "
                          f"degrees={deg})", barc3, "circle_parameters", [],
                          {"model": m, "degrees": deg}, circ))
    t.append(("Subspace.boundary_sphere_parameters", sub34,
              "boundary_sphere_parameters", [], {},
              lambda O: (O + (2,), O)))
    sub3 = dict(cls="Subspace", proj=(3, "n"), und=2)
    t.append(("Subspace._data_with_dual", sub3, "_data_with_dual", [], {},
              lambda O: O + (4, "n")))
    t.append(("Subspace.spacelike_complement", sub3, "spacelike_complement",
              [], {}, lambda O: ("obj", O + N)))
    t.append(("TangentVector.normalized", tv, "normalized", [], {},
              lambda O: ("obj", O + (2, "n"))))
    t.append(("TangentVector.angle", tv, "angle", ["@same"], {},
              lambda O: O))
    t.append(("TangentVector.point_along", tv3, "point_along", ["@outer"],
              {}, lambda O: ("obj", O + (3,))))
    t.append(("TangentVector.origin_to", tv3, "origin_to", [], {},
              lambda O: ("obj", O + (3, 3))))
    iso = dict(cls="Isometry", proj=("n", "n"), und=2)
    iso3 = dict(cls="Isometry", proj=(3, 3), und=2)
    for flag in (True, False):
        t.append((f"Isometry.fixed_point_pair(sort_eigvals={flag})", iso,
                  "fixed_point_pair", [flag], {},
                  lambda O: ("obj", O + (2, "n"))))
        t.append((f"Isometry.fixed_point(max_eigval={flag})", iso,
                  "fixed_point", [flag], {}, lambda O: ("obj", O + N)))
    t.append(("Isometry.axis", iso, "axis", [], {},
              lambda O: ("obj", O + (2, "n"))))
    t.append(("Hyperplane.from_reflection", dict(cls="Hyperplane",
              static=True), "from_reflection", [iso], {},
              lambda O: ("obj", O + ("n", "n"))))
    t.append(("Geodesic.from_reflection", dict(cls="Geodesic", static=True),
              "from_reflection", [iso3], {}, lambda O: ("obj", O + (2, 3))))
    t.append(("Subspace.reflection_across", geo3, "reflection_across", [],
              {}, lambda O: ("obj", O + (3, 3))))
    horo3 = dict(cls="Horosphere", proj=(2, 3), und=2)
    t.append(("Horosphere.intersect_geodesic", horo3, "intersect_geodesic",
              [geo3], {}, lambda O: ("obj", O + (2, 3))))
    t.append(("Segment.geodesic", seg, "geodesic", [], {},
              lambda O: ("obj", O + (2, "n"))))
    t.append(("Segment.get_endpoints", seg, "get_endpoints", [], {},
              lambda O: ("obj", O + (2, "n"))))
    t.append(("Segment.get_end_pair", seg, "get_end_pair", [], {},
              lambda O: (O + N, O + N)))
    t.append(("BoundaryArc.endpoint_coords", barc3, "endpoint_coords",
              ["Model.POINCARE"], {}, lambda O: O + (2, 2)))
    t.append(("BoundaryArc.orientation", barc3, "orientation", [], {},
              lambda O: O))
    hyp_ = dict(cls="Hyperplane", proj=("n", "n"), und=2)
    hyp3 = dict(cls="Hyperplane", proj=(3, 3), und=2)
    t.append(("Hyperplane.reflection_across", hyp3, "reflection_across", [],
              {}, lambda O: ("obj", O + (3, 3))))
    t.append(("Hyperplane.ideal_basis_coords", hyp_, "ideal_basis_coords",
              ["Model.KLEIN"], {}, lambda O: O + ("n-1", "n-1")))
    t.append(("Hyperplane.sphere_parameters", hyp_, "sphere_parameters",
              [], {}, lambda O: (O + ("n-1",), O)))
    fn = dict(cls=None)
    # (timelike_to / spacelike_to document a single vector: not tabled)
    t.append(("sl2_iso", fn, "sl2_iso", [dict(arr=(2, 2))], {},
              lambda O: ("obj", O + (3, 3))))
    t.append(("TangentVector.isometry_to", tv3, "isometry_to", ["@same"],
              {}, lambda O: ("obj", O + (3, 3))))
    pt3 = dict(cls="Point", proj=(3,), und=1)
    t.append(("Point.origin_to", pt3, "origin_to", [], {},
              lambda O: ("obj", O + (3, 3))))
    t.append(("Point.unit_tangent_towards", pt, "unit_tangent_towards",
              ["@same"], {}, lambda O: ("obj", O + (2, "n"))))
    # factories that take the composite shape as an ARGUMENT ("@shape" is
    # the outer shape of the row, as a tuple)
    t.append(("Point.get_origin(shape)", dict(cls="Point", static=True),
              "get_origin", [2, "@shape"], {}, lambda O: ("obj", O + (3,))))
    t.append(("TangentVector.get_base_tangent(shape)",
              dict(cls="TangentVector", static=True), "get_base_tangent",
              [2, "@shape"], {}, lambda O: ("obj", O + (2, 3))))
    return t


SH5_C14 = {"Geodesic.circle_parameters", "Segment.circle_parameters",
           "HorosphereArc.circle_parameters", "BoundaryArc.circle_parameters",
           "Subspace.sphere_parameters", "Geodesic.sphere_parameters",
           "Segment.sphere_parameters", "Horosphere.sphere_parameters",
           "Subspace.boundary_sphere_parameters",
           "Subspace.ideal_basis_coords", "Segment.endpoint_coords",
           "Segment.ideal_endpoint_coords", "Horosphere.center_coords",
           "Horosphere.ref_coords"}


def _run_object_table(ctx, rid, it, table, home_rel, only=None):
    """Interpret every (label, object spec, method, args, kwargs, expected)
    row on abstract objects for all outer shapes of the tier; one
    obligation per row.  A construct the interpreter cannot follow leaves
    that row unjudged (NOTE) without hiding the other rows."""
    from ..shape import AObj, AttributeErrorSim, RaiseSim
    import os
    r = ctx.r
    debug = os.environ.get("SA_SH5_DEBUG")
    outers = _outer_shapes(ctx.tier)
    total = 0
    for label, spec, meth, args, kw, want in table:
        cname = spec["cls"]
        if only is not None and f"{cname}.{meth}" not in only:
            continue
        if cname is None:
            cls = None
            f = ctx.p.get_function(home_rel, meth)
        else:
            cls = ctx.p.get_class(spec.get("rel", home_rel), cname)
            f = ctx.p.find_method(cls, meth)
            if f is None:
                raise AnalysisError(
                    f"anchor method {cname}.{meth} has vanished")
        it.owner.setdefault(id(f.node), it._prefix_of(f.module.rel))
        r.analysed(f)
        bad = []
        unsupported = None
        paths = 0
        for O in outers:
            if len(O) < spec.get("min_rank", 0):
                continue
            total += 1

            def mk(sp=spec, c=cls):
                Oo = sp.get("outer", O)
                return AObj(c, proj=AArr(Oo + sp["proj"]),
                            aux=AArr(Oo + sp["aux"]) if "aux" in sp
                            else None,
                            dual=AArr(Oo + sp["dual"]) if "dual" in sp
                            else None, unit_ndims=sp["und"],
                            aux_ndims=sp.get("aund", 0),
                            dual_ndims=sp.get("dund", 0))

            def arg(x):
                if x == "@same":
                    return mk()
                if x == "@shape":
                    return tuple(O)
                if x == "@outer":
                    return AArr(O)
                if isinstance(x, dict) and "arr" in x:
                    return AArr(O + x["arr"])
                if isinstance(x, dict):
                    return mk(x, ctx.p.get_class(x.get("rel", home_rel),
                                                 x["cls"]))
                return x
            def one_path():
                a = [arg(x) for x in args]
                got = it.call_node(
                    f.node, ([] if spec.get("static") or cls is None
                             else [mk()]) + a,
                    {k: arg(v) for k, v in kw.items()})
                w = want(O)
                if w and w[0] in ("tuple", "value"):
                    exp = tuple(w[1]) if w[0] == "tuple" else w[1]
                    if got != exp:
                        raise ShapeError(f"returned {got!r}, expected "
                                         f"{exp!r}")
                elif w and w[0] == "obj":
                    gs = got.proj_data.shape if isinstance(got, AObj) \
                        and isinstance(got.proj_data, AArr) else None
                    if gs != tuple(w[1]):
                        raise ShapeError(f"result object data {gs}, "
                                         f"expected {w[1]}")
                    if len(w) > 2 and w[2] is not None:
                        ga = got.aux_data.shape if isinstance(
                            got.aux_data, AArr) else None
                        if ga != tuple(w[2]):
                            raise ShapeError(
                                f"auxiliary data of the result {ga}, "
                                f"expected {tuple(w[2])}")
                elif w and isinstance(w[0], tuple):
                    gs = tuple(x.shape if isinstance(x, AArr) else
                               () if isinstance(x, AScal) else None
                               for x in got) \
                        if isinstance(got, tuple) else None
                    if gs != tuple(tuple(x) for x in w):
                        raise ShapeError(f"result shapes {gs}, expected {w}")
                else:
                    gs = got.shape if isinstance(got, AArr) else (
                        () if isinstance(got, AScal) else None)
                    if gs != tuple(w):
                        raise ShapeError(f"result shape {gs}, expected "
                                         f"{tuple(w)}")
            try:
                paths += it.explore_paths(one_path)
            except (ShapeError, DataDependent) as e:
                bad.append((O, str(e)))
            except AttributeErrorSim as e:
                bad.append((O, f"AttributeError: {e}"))
            except RaiseSim as e:
                bad.append((O, f"raises {e.name} (line {e.lineno}) for a "
                               "valid object"))
            except Unsupported as e:
                if debug:
                    print(rid, "unsupported", label, O, e)
                unsupported = (O, str(e))
                break
        inst = f"{rid}:{label}"
        if debug:
            print(rid, label, "unsupported" if unsupported else
                  "bad" if bad else "ok", bad[:1])
        if unsupported is not None and not bad:
            r.note(rid, loc(f, f.node), label,
                   f"not judged: the interpreter cannot follow this method "
                   f"for outer shape {unsupported[0]} ({unsupported[1]})")
            r.gap(f"rule_{rid.lower()}", f"{label}: {unsupported[1]}",
                  fatal=False)
        elif not bad:
            r.ok(rid, inst, loc(f, f.node), "",
                 f"{len(outers)} composite shapes: documented result shape")
        else:
            O, why = bad[0]
            r.violation(
                rid, f"{f.fq}|{label}", loc(f, f.node), label,
                f"{len(bad)} of {len(outers)} composite shapes fail; first: "
                f"outer shape {O}: {why}. For an array of objects the "
                "result is not the per-object result at each index",
                instance=inst)
    r.extra[f"{rid}_evaluations"] = total
    return total


def rule_sh5(ctx, only=None):
    r = ctx.r
    r.rule("SH5", "methods of the hyperbolic objects interpreted end to end "
                  "on abstract objects (data known by symbolic shape, "
                  "constructors modelled, run-time validity guards assumed "
                  "to pass): for composite shapes of every rank the result "
                  "has the composite axes of the object followed by the "
                  "documented unit shape (coordinates: n-1 or n; centre, "
                  "radius, angle pair; ...)")
    core = ctx.p.module_by_rel(CORE)
    hyp = ctx.p.module_by_rel(HYP)
    proj = ctx.p.module_by_rel(PROJ_REL)
    lie = ctx.p.module_by_rel(LIE)
    it = Interp(hyp.tree, extra_trees=(("utils", core.tree),
                                       ("projective", proj.tree),
                                       ("lie", lie.tree)))
    it.project = ctx.p
    it.rel_prefix = {HYP: "", CORE: "utils", PROJ_REL: "projective",
                     LIE: "lie"}
    it.ctor_model = _hyp_ctor
    return _run_object_table(ctx, "SH5", it, _sh5_table(), HYP, only)


# ---------------------------------------------------------------------------
# SH6: CP^1 points, disks and Moebius maps interpreted end to end

CP1 = "geometry_tools/complex_projective.py"


def _cp1_ctor(it, cls, args, kw):
    """Constructor model for complex_projective (and the projective classes
    it uses): the data array is kept, `coords=` decides how a CP1Point's
    array is read."""
    from ..shape import AObj
    if not args:
        raise Unsupported(f"constructor {cls.name} without data")
    a0 = args[0]
    name = cls.name
    unit = {"CP1Point": 1, "Point": 1, "CP1Disk": 2, "Transformation": 2,
            "CP1Object": None, "ProjectiveObject": None}.get(name, "?")
    if unit == "?":
        raise Unsupported(f"constructor {name}")
    if unit is None:
        unit = kw.get("unit_ndims", 1)
    if isinstance(a0, AObj):
        o = a0.clone()
        o.cls = cls
        o.unit_ndims = unit
        return o
    if not isinstance(a0, AArr):
        raise Unsupported(f"constructor {name} of {a0!r}")
    sh = a0.shape
    if name == "CP1Point":
        coords = kw.get("coords", args[1] if len(args) > 1 else "projective")
        if coords == "cx_affine":
            sh = sh + (2,)
        elif coords == "real_affine":
            if not sh or sh[-1] != 2:
                raise ShapeError(f"real affine coordinates of shape {sh}")
        elif coords == "spherical":
            if not sh or sh[-1] != 3:
                raise ShapeError(f"spherical coordinates of shape {sh}")
            sh = sh[:-1] + (2,)
        elif coords != "projective":
            raise Unsupported(f"coords={coords!r}")
    if name == "CP1Disk" and len(args) > 1 and args[1] is not None:
        raise Unsupported("CP1Disk(center, radius) inside interpreted code")
    if name == "Transformation":
        if kw.get("column_vectors") or (len(args) > 1 and args[1] is True):
            sh = sh[:-2] + (sh[-1], sh[-2])
        if len(sh) < 2 or sh[-1] != sh[-2]:
            raise ShapeError(f"Transformation built from an array of shape "
                             f"{sh}")
    if len(sh) < unit:
        raise ShapeError(f"{name} built from an array of shape {sh}: fewer "
                         f"than its {unit} unit axes")
    return AObj(cls, proj=a0 if sh == a0.shape else AArr(sh),
                unit_ndims=unit)


def _flat(O):
    if not O:
        return 1
    if len(O) == 1:
        return O[0]
    if all(isinstance(x, int) for x in O):
        d = 1
        for x in O:
            d *= x
        return d
    return "*".join(str(x) for x in O)


def _sh6_table():
    disk = dict(cls="CP1Disk", proj=(4, 2), und=2)
    pt = dict(cls="CP1Point", proj=(2,), und=1)
    tri = dict(cls="CP1Point", proj=(3, 2), und=1)
    t = [
        ("CP1Disk.boundary_points", disk, "boundary_points", [], {},
         lambda O: ("obj", O + (3, 2))),
        ("CP1Disk.interior_point", disk, "interior_point", [], {},
         lambda O: ("obj", O + (2,))),
        ("CP1Disk.circle_parameters", disk, "circle_parameters", [], {},
         lambda O: (O + (2,), O)),
        ("CP1Disk.center_inside", disk, "center_inside", [], {},
         lambda O: O),
        ("CP1Disk.fs_diameter", disk, "fs_diameter", [], {}, lambda O: O),
        ("CP1Disk.fs_center", disk, "fs_center", [], {},
         lambda O: ("obj", O + (2,))),
        ("CP1Disk.inversion", disk, "inversion", [], {},
         lambda O: ("obj", O + (2, 2))),
        ("CP1Disk.complement", disk, "complement", [], {},
         lambda O: ("obj", O + (4, 2))),
        ("CP1Disk.contains[elementwise]", disk, "contains", ["@same"], {},
         lambda O: O),
        ("CP1Disk.intersects[elementwise]", disk, "intersects", ["@same"],
         {}, lambda O: O),
        ("CP1Disk.contains[pairwise]", disk, "contains",
         [dict(cls="CP1Disk", proj=(4, 2), und=2, outer=("M1",))],
         {"broadcast": "pairwise"}, lambda O: (_flat(O), "M1")),
        ("CP1Disk.intersects[pairwise]", disk, "intersects",
         [dict(cls="CP1Disk", proj=(4, 2), und=2, outer=("M1",))],
         {"broadcast": "pairwise"}, lambda O: (_flat(O), "M1")),
        ("CP1Point.spherical_coords", pt, "spherical_coords", [], {},
         lambda O: O + (3,)),
        ("CP1Point.real_affine_coords", pt, "real_affine_coords", [], {},
         lambda O: O + (2,)),
        ("CP1Point.to_standard_triple", tri, "to_standard_triple", [], {},
         lambda O: ("obj", O + (2, 2))),
        ("CP1Disk._compute_proj_data[affine]", disk, "_compute_proj_data",
         [pt, "@outer"], {"radius_metric": "affine"},
         lambda O: O + (4, 2)),
        ("CP1Disk._compute_proj_data[fs]", disk, "_compute_proj_data",
         [pt, "@outer"], {"radius_metric": "fs"}, lambda O: O + (4, 2)),
        ("projective_to_spherical", dict(cls=None), "projective_to_spherical",
         [dict(arr=(2,))], {}, lambda O: O + (3,)),
        ("spherical_to_projective", dict(cls=None), "spherical_to_projective",
         [dict(arr=(3,))], {}, lambda O: O + (2,)),
    ]
    return t


def rule_sh6(ctx, only=None):
    r = ctx.r
    r.rule("SH6", "methods of CP1Point / CP1Disk and the spherical <-> "
                  "homogeneous coordinate maps interpreted end to end on "
                  "abstract objects: for a single object and for arrays of "
                  "objects of every rank the result has the composite axes "
                  "of the object followed by the documented unit shape "
                  "(and no item assignment lands on a NumPy scalar)")
    core = ctx.p.module_by_rel(CORE)
    cp1 = ctx.p.module_by_rel(CP1)
    proj = ctx.p.module_by_rel(PROJ_REL)
    it = Interp(cp1.tree, extra_trees=(("utils", core.tree),
                                       ("projective", proj.tree)))
    it.project = ctx.p
    it.rel_prefix = {CP1: "", CORE: "utils", PROJ_REL: "projective"}
    it.ctor_model = _cp1_ctor
    return _run_object_table(ctx, "SH6", it, _sh6_table(), CP1, only)


# ---------------------------------------------------------------------------
# SH7: projective objects (reshape / flatten / index / coordinates)

PROJ_UNITS = {"Point": (1, 0), "PointCollection": (2, 0),
              "PointPair": (2, 0), "Polygon": (2, 3), "Subspace": (2, 0),
              "Transformation": (2, 0), "ConvexPolygon": (2, 3),
              "Simplex": (2, 0)}


def _proj_ctor(it, cls, args, kw):
    """Constructor model for projective.py: ProjectiveObject(...) keeps the
    slots and ndims it is given; the named subclasses fix their unit rank
    (PROJ_UNITS) and compute auxiliary data with their own
    _compute_aux_data; Class(obj) re-labels obj's data."""
    from ..shape import AObj
    name = cls.name
    if not args:
        raise Unsupported(f"constructor {name} without data")
    a0 = args[0]
    if name == "ProjectiveObject":
        if isinstance(a0, AObj):
            o = a0.clone()
            o.cls = cls
            return o
        if not isinstance(a0, AArr):
            raise Unsupported(f"ProjectiveObject of {a0!r}")
        aux = kw.get("aux_data", args[1] if len(args) > 1 else None)
        dual = kw.get("dual_data", args[2] if len(args) > 2 else None)
        und = kw.get("unit_ndims", 1)
        aund = kw.get("aux_ndims", 0)
        dund = kw.get("dual_ndims", 0)
        if len(a0.shape) < und:
            raise ShapeError(f"ProjectiveObject with unit_ndims={und} built "
                             f"from an array of shape {a0.shape}")
        if isinstance(aux, AArr) and len(aux.shape) < aund:
            raise ShapeError(f"aux data of shape {aux.shape} with "
                             f"aux_ndims={aund}")
        if isinstance(aux, AArr) and isinstance(a0, AArr) and aund and \
                aux.shape[:len(aux.shape) - aund] != \
                a0.shape[:len(a0.shape) - und]:
            raise ShapeError(
                f"aux data of shape {aux.shape} (aux_ndims={aund}) does not "
                f"have the composite shape of the data {a0.shape} "
                f"(unit_ndims={und})")
        return AObj(cls, proj=a0, aux=aux if aund else None,
                    dual=dual if dund else None, unit_ndims=und,
                    aux_ndims=aund, dual_ndims=dund)
    if name not in PROJ_UNITS:
        raise Unsupported(f"constructor {name}")
    und, aund = PROJ_UNITS[name]
    if isinstance(a0, AObj) and not (len(args) > 1 and isinstance(
            args[1], (AArr, AObj))):
        o = a0.clone()
        o.cls = cls
        o.unit_ndims = und
        if aund and not isinstance(o.aux_data, AArr):
            m = it.find_method(o, "_compute_aux_data")
            o.aux_ndims = aund
            o.aux_data = it.call_node(m, [o, o.proj_data])
        elif not aund:
            o.aux_data, o.aux_ndims = None, 0
        return o
    if name == "PointPair" and len(args) > 1 and isinstance(
            args[1], (AArr, AObj)):
        d0 = a0.proj_data if isinstance(a0, AObj) else a0
        d1 = args[1].proj_data if isinstance(args[1], AObj) else args[1]
        if d0.shape != d1.shape:
            raise ShapeError(f"PointPair(p1, p2) with shapes {d0.shape} and "
                             f"{d1.shape}")
        a0 = AArr(d0.shape[:-1] + (2, d0.shape[-1]))
    if not isinstance(a0, AArr):
        raise Unsupported(f"constructor {name} of {a0!r}")
    sh = a0.shape
    if name == "Transformation":
        if kw.get("column_vectors") or (len(args) > 1 and args[1] is True):
            sh = sh[:-2] + (sh[-1], sh[-2])
        if len(sh) < 2 or sh[-1] != sh[-2]:
            raise ShapeError(f"Transformation built from an array of shape "
                             f"{sh}")
    if len(sh) < und:
        raise ShapeError(f"{name} built from an array of shape {sh}: fewer "
                         f"than its {und} unit axes")
    o = AObj(cls, proj=a0 if sh == a0.shape else AArr(sh), unit_ndims=und)
    if aund:
        aux = kw.get("aux_data", args[1] if len(args) > 1 else None)
        o.aux_ndims = aund
        if isinstance(aux, AArr):
            o.aux_data = aux
        else:
            m = it.find_method(o, "_compute_aux_data")
            o.aux_data = it.call_node(m, [o, o.proj_data])
    return o


def _sh7_table():
    N, N1 = ("n",), ("n-1",)
    pt = dict(cls="Point", proj=N, und=1)
    pp = dict(cls="PointPair", proj=(2, "n"), und=2)
    poly = dict(cls="Polygon", proj=("k", "n"), aux=("k", 2, "n"), und=2,
                aund=3)
    tr = dict(cls="Transformation", proj=("n", "n"), und=2)
    t = []
    for nm, sp, unit, aux in (("Point", pt, N, None),
                              ("PointPair", pp, (2, "n"), None),
                              ("Polygon", poly, ("k", "n"), ("k", 2, "n")),
                              ("Transformation", tr, ("n", "n"), None)):
        t.append((f"{nm}.shape", sp, "shape", [], {},
                  lambda O: ("tuple", O)))
        t.append((f"{nm}.flatten_to_unit", sp, "flatten_to_unit", [], {},
                  (lambda unit, aux: lambda O: ("obj", (_flat(O),) + unit,
                                                (_flat(O),) + aux if aux
                                                else None))(unit, aux)))
        t.append((f"{nm}.reshape", sp, "reshape", [("M1", "M2")], {},
                  (lambda unit, aux: lambda O: ("obj", ("M1", "M2") + unit,
                                                ("M1", "M2") + aux if aux
                                                else None))(unit, aux)))
        t.append((f"{nm}.astype", sp, "astype", ["float64"], {},
                  (lambda unit, aux: lambda O: ("obj", O + unit,
                                                O + aux if aux
                                                else None))(unit, aux)))
        t.append((f"{nm}.__getitem__", dict(sp, min_rank=1), "__getitem__",
                  [0], {},
                  (lambda unit, aux: lambda O: ("obj", O[1:] + unit,
                                                O[1:] + aux if aux
                                                else None))(unit, aux)))
        t.append((f"{nm}.__len__", dict(sp, min_rank=1), "__len__", [], {},
                  lambda O: ("value", O[0])))
    t.append(("Point.projective_coords", pt, "projective_coords", [], {},
              lambda O: O + N))
    t.append(("Point.affine_coords", pt, "affine_coords", [], {},
              lambda O: O + N1))
    t.append(("Point.affine_coords(chart 1)", pt, "affine_coords", [],
              {"chart_index": 1}, lambda O: O + N1))
    t.append(("Point.in_affine_chart", pt, "in_affine_chart", [0], {},
              lambda O: O))
    t.append(("PointPair.get_endpoints", pp, "get_endpoints", [], {},
              lambda O: ("obj", O + (2, "n"), None)))
    t.append(("PointPair.endpoint_affine_coords", pp,
              "endpoint_affine_coords", [], {}, lambda O: O + (2, "n-1")))
    t.append(("PointPair.endpoint_projective_coords", pp,
              "endpoint_projective_coords", [], {},
              lambda O: O + (2, "n")))
    t.append(("Polygon.get_edges", poly, "get_edges", [], {},
              lambda O: ("obj", O + ("k", 2, "n"), None)))
    t.append(("Polygon.get_vertices", poly, "get_vertices", [], {},
              lambda O: ("obj", O + ("k", "n"), None)))
    t.append(("Polygon.in_standard_chart", poly, "in_standard_chart", [],
              {}, lambda O: O))
    t.append(("Polygon._compute_aux_data", poly, "_compute_aux_data",
              [dict(arr=("k", "n"))], {}, lambda O: O + ("k", 2, "n")))
    t.append(("Transformation.inv", tr, "inv", [], {},
              lambda O: ("obj", O + ("n", "n"), None)))
    t.append(("Transformation.diagonalize", tr, "diagonalize", [], {},
              lambda O: ("obj", O + ("n", "n"), None)))
    t.append(("affine_coords", dict(cls=None), "affine_coords",
              [dict(arr=N)], {"chart_index": 0}, lambda O: O + N1))
    t.append(("projective_coords", dict(cls=None), "projective_coords",
              [dict(arr=N1)], {}, lambda O: O + N))
    t.append(("projective_coords(chart 1)", dict(cls=None),
              "projective_coords", [dict(arr=N1)], {"chart_index": 1},
              lambda O: O + N))
    return t


def rule_sh7(ctx, only=None):
    r = ctx.r
    r.rule("SH7", "reshape / flatten_to_unit / indexing / len / astype and "
                  "the coordinate accessors of the projective objects, "
                  "interpreted on abstract objects with one, two and three "
                  "data slots: the composite axes are rearranged as "
                  "documented and every slot keeps its own unit axes")
    core = ctx.p.module_by_rel(CORE)
    proj = ctx.p.module_by_rel(PROJ_REL)
    it = Interp(proj.tree, extra_trees=(("utils", core.tree),))
    it.project = ctx.p
    it.rel_prefix = {PROJ_REL: "", CORE: "utils"}
    it.ctor_model = _proj_ctor
    return _run_object_table(ctx, "SH7", it, _sh7_table(), PROJ_REL, only)


# ---------------------------------------------------------------------------
# SH8: the Lie-group maps on single matrices and arrays of matrices

LIE = "geometry_tools/lie/core.py"


def _sh8_table():
    M2 = dict(arr=(2, 2))
    M3 = dict(arr=(3, 3))
    fn = dict(cls=None)
    return [
        ("sl2_irrep(n=3)", fn, "sl2_irrep", [M2, 3], {},
         lambda O: O + (3, 3)),
        ("sl2_irrep(n=4)", fn, "sl2_irrep", [M2, 4], {},
         lambda O: O + (4, 4)),
        ("sl2_to_so21", fn, "sl2_to_so21", [M2], {}, lambda O: O + (3, 3)),
        ("block_include", fn, "block_include", [M2, 4], {},
         lambda O: O + (4, 4)),
        ("slc_to_slr", fn, "slc_to_slr", [M2], {}, lambda O: O + (4, 4)),
        ("gln_adjoint", fn, "gln_adjoint", [M2], {}, lambda O: O + (4, 4)),
        ("sln_adjoint", fn, "sln_adjoint", [M2], {}, lambda O: O + (3, 3)),
        ("sl2c_herm_action", fn, "sl2c_herm_action", [M2], {},
         lambda O: O + (4, 4)),
        ("sl2c_to_so31", fn, "sl2c_to_so31", [M2], {},
         lambda O: O + (4, 4)),
        ("o_to_pgl", fn, "o_to_pgl", [M3], {"bilinear_form": None},
         lambda O: O + (2, 2)),
        ("o_to_pgl(default form)", fn, "o_to_pgl", [M3], {},
         lambda O: O + (2, 2)),
    ]


def rule_sh8(ctx, only=None):
    r = ctx.r
    r.rule("SH8", "the Lie-group maps of lie/core.py interpreted on "
                  "abstract matrices: for a single matrix and for arrays "
                  "of matrices of every rank the image has the batch axes "
                  "of the argument followed by the documented square shape")
    core = ctx.p.module_by_rel(CORE)
    lie = ctx.p.module_by_rel(LIE)
    it = Interp(lie.tree, extra_trees=(("utils", core.tree),))
    it.project = ctx.p
    it.rel_prefix = {LIE: "", CORE: "utils"}
    return _run_object_table(ctx, "SH8", it, _sh8_table(), LIE, only)


# ---------------------------------------------------------------------------
# HOM1: homogeneity types -- which results are independent of the scale of
# the homogeneous coordinates they are computed from

# classes whose data is a list of points: every row (all axes but the
# last) is a homogeneous vector with its own arbitrary non-zero scale
HOM_ROW_CLASSES = {"Point", "IdealPoint", "PointPair", "Geodesic", "Segment",
                   "Subspace", "Polygon", "Horosphere", "Hyperplane",
                   "PointCollection", "CP1Point", "DualPoint", "CP1Disk"}
# data that is a definite matrix / carries meaning in its sign: no rescaling
HOM_FIXED_CLASSES = {"Isometry", "Transformation", "BoundaryArc",
                     "HorosphereArc", "TangentVector"}
# results that are the stored representative (or an orientation encoded in
# it) by definition
HOM_VARIANT_BY_DESIGN = {
    "Point.coords(Model.PROJECTIVE)":
        "projective coordinates are the stored representative",
    "Point.projective_coords": "the stored representative",
    "PointPair.endpoint_projective_coords": "the stored representatives",
    "Segment.get_end_pair": "returns the stored rows (as_points=False)",
    "projective_coords": "maps affine to homogeneous coordinates",
    "projective_coords(chart 1)": "maps affine to homogeneous coordinates",
    "TangentVector._compute_aux_data":
        "returns homogeneous rows (base point, tangent vector); only the "
        "scale-dependent constructs met on the way are judged",
    "CP1Disk._compute_proj_data[fs]":
        "returns four homogeneous rows (three boundary points, the centre "
        "as stored), each defined up to its own scalar; only the "
        "scale-dependent constructs met on the way are judged",
    "CP1Disk._compute_proj_data[affine]":
        "returns four homogeneous rows (three boundary points, the centre "
        "as stored), each defined up to its own scalar",
}
# functions that may add up rows with independent scales: only the span of
# the rows is used afterwards
HOM_ROWSUM_OK = {
    "_data_with_dual": "the sum only supplies one more vector of the span "
                       "for Gram-Schmidt; the dual depends on the span alone",
}
# plain-array arguments that are homogeneous coordinates (label -> indices)
HOM_ARRAY_ARGS = {
    "projective_to_spherical": (0,),
    "affine_coords": (0,),
    "affine_coords(chart 1)": (0,),
}


def _hom_extra_table():
    """Rows judged by HOM1 only (no expected shapes): further coordinate
    getters of hyperbolic.py."""
    K, P, H = "Model.KLEIN", "Model.POINCARE", "Model.HALFSPACE"
    pt = dict(cls="Point", proj=("n",), und=1)
    geo = dict(cls="Geodesic", proj=(2, "n"), und=2)
    seg = dict(cls="Segment", proj=(2, "n"), aux=(2, "n"), und=2, aund=2)
    pp = dict(cls="PointPair", proj=(2, "n"), und=2)
    fn = dict(cls=None)
    no = lambda O: O
    t = [(f"Point.{g}", pt, g, [], {}, no) for g in (
        "kleinian_coords", "poincare_coords", "halfspace_coords",
        "hyperboloid_coords")]
    for m in (K, P, H):
        t.append((f"PointPair.endpoint_coords({m})", pp, "endpoint_coords",
                  [m], {}, no))
        t.append((f"Geodesic.endpoint_coords({m})", geo, "endpoint_coords",
                  [m], {}, no))
    t.append(("kleinian_coords", fn, "kleinian_coords",
              [dict(arr=("n",))], {}, no))
    t.append(("hyperboloid_coords", fn, "hyperboloid_coords",
              [dict(arr=("n",))], {}, no))
    t.append(("Segment._compute_aux_data", seg, "_compute_aux_data",
              [dict(arr=(2, "n"))], {}, no))
    tv = dict(cls="TangentVector", proj=(2, "n"), und=2)
    t.append(("TangentVector._compute_aux_data", tv, "_compute_aux_data",
              [dict(arr=(2, "n"))], {}, no))
    t.append(("spacelike_to", fn, "spacelike_to",
              [dict(arr=(4,), outer=())], {}, no))
    t.append(("timelike_to", fn, "timelike_to",
              [dict(arr=(4,), outer=())], {}, no))
    return t


HOM_ARRAY_ARGS.update({"kleinian_coords": (0,), "hyperboloid_coords": (0,),
                       "Segment._compute_aux_data": (0,),
                       "TangentVector._compute_aux_data": (0,),
                       "spacelike_to": (0,), "timelike_to": (0,)})



def _run_hom_table(ctx, rid, it, table, home_rel, complex_scale=False,
                   only=None):
    from .. import hom as HM
    from ..shape import AObj, AttributeErrorSim, RaiseSim
    import os
    r = ctx.r
    # the set of complex scale variables is module state of sa.hom: start
    # every table from an empty set, or a worker process that has run a
    # complex table before would type `self` as complex in a real one
    HM.COMPLEX_VARS.clear()
    debug = os.environ.get("SA_HOM_DEBUG")
    # composite shapes of the objects: one batch axis in the quick tier, none
    # / one / two in the thorough tier (rank-dependent branches)
    outers = [("a",)] if ctx.tier == "quick" else [(), ("a",), ("a", "b")]
    O = outers[0]
    stats = {"proved": 0, "refuted": 0, "undecided": 0, "rows": 0}

    def flat(v, pre=""):
        if isinstance(v, (tuple, list)):
            for i, x in enumerate(v):
                yield from flat(x, f"{pre}[{i}]")
        elif isinstance(v, (AArr, AScal)):
            yield pre or "result", v

    for label, spec, meth, args, kw, want in table:
        cname = spec["cls"]
        if only is not None and f"{cname}.{meth}" not in only:
            continue
        if cname is None:
            cls = None
            f = ctx.p.get_function(home_rel, meth)
        else:
            cls = ctx.p.get_class(spec.get("rel", home_rel), cname)
            f = ctx.p.find_method(cls, meth)
            if f is None:
                raise AnalysisError(
                    f"anchor method {cname}.{meth} has vanished")
        it.owner.setdefault(id(f.node), it._prefix_of(f.module.rel))
        r.analysed(f)
        stats["rows"] += 1
        names = []

        def tag(nm, cn, part=""):
            if cn in HOM_FIXED_CLASSES:
                return HM.INV
            v = nm + part
            if complex_scale:
                HM.COMPLEX_VARS.add(v)
            names.append(v)
            return HM.var(v, indep=cn in HOM_ROW_CLASSES)

        def mk(sp=spec, c=cls, nm="self"):
            Oo = sp.get("outer", O)
            cn = sp["cls"]
            return AObj(c, proj=AArr(Oo + sp["proj"], tag(nm, cn)),
                        aux=AArr(Oo + sp["aux"], tag(nm, cn, ".aux"))
                        if "aux" in sp else None,
                        dual=AArr(Oo + sp["dual"], tag(nm, cn, ".dual"))
                        if "dual" in sp else None, unit_ndims=sp["und"],
                        aux_ndims=sp.get("aund", 0),
                        dual_ndims=sp.get("dund", 0))

        def arg(x, k):
            if x == "@same":
                return mk(nm=f"arg{k}")
            if x == "@shape":
                return tuple(O)
            if x == "@outer":
                return AArr(O, HM.INV)
            if isinstance(x, dict) and "arr" in x:
                Ox = x.get("outer", O)
                if k in HOM_ARRAY_ARGS.get(label.replace(" [complex]", ""),
                                           ()):
                    return AArr(Ox + x["arr"], tag(f"arg{k}", "Point"))
                return AArr(Ox + x["arr"], HM.INV)
            if isinstance(x, dict):
                return mk(x, ctx.p.get_class(x.get("rel", home_rel),
                                             x["cls"]), nm=f"arg{k}")
            return x

        runs = []

        def one_path():
            t = HM.Tracker()
            t.it = it
            it.homt = t
            a = [arg(x, k) for k, x in enumerate(args)]
            got = it.call_node(
                f.node, ([] if spec.get("static") or cls is None
                         else [mk()]) + a,
                {k: arg(v, k) for k, v in kw.items()})
            runs.append((t, got))

        failed = None
        for O in outers:
            if len(O) < spec.get("min_rank", 0):
                continue
            try:
                it.explore_paths(one_path)
            except (Unsupported, ShapeError, DataDependent,
                    AttributeErrorSim, RaiseSim) as e:
                failed = failed or f"outer shape {O}: {e}"
            finally:
                it.homt = None
        inst = f"{rid}:{label}"
        verdict = "proved"
        detail = ""
        events = []
        for t, got in runs:
            events.extend(t.events)
            for where, v in flat(got):
                h = v.hom
                if h is None:
                    if verdict == "proved":
                        verdict = "undecided"
                        dr = sorted(set(t.dropped))
                        detail = (f"{where}: scaling not determined" + (
                            f" (first lost in {dr[0][0]}, line {dr[0][1]})"
                            if dr else ""))
                elif not (h.invariant or h.wild):
                    verdict = "refuted"
                    detail = (f"{where} is multiplied by {h!r} when the "
                              f"homogeneous coordinates are rescaled, so it")
                elif not h.wild and not h.steady and h.why:
                    verdict = "refuted"
                    detail = (f"{where} is a predicate decided by {h.why}, "
                              "so it")
            if not list(flat(got)) and verdict == "proved":
                verdict = "object"
            for o in (got if isinstance(got, (tuple, list)) else [got]):
                if not isinstance(o, AObj):
                    continue
                for slot in ("proj_data", "aux_data"):
                    h = getattr(getattr(o, slot, None), "hom", None)
                    if h is not None and h.mixed and h.indep:
                        verdict = "refuted"
                        detail = (f"the {slot} of the returned "
                                  f"{o.cls.name if o.cls else 'object'} has "
                                  "coordinates that scale differently from "
                                  "each other: it is not the homogeneous "
                                  "coordinate vector of one point, and which "
                                  "point it is")
                    elif slot == "proj_data" and o.cls is not None \
                            and o.cls.name == "Isometry" and h is not None \
                            and not (h.invariant or h.wild or h.mixed):
                        verdict = "refuted"
                        detail = (f"the matrix of the returned Isometry is "
                                  f"multiplied by {h!r}: it cannot preserve "
                                  "the Minkowski form for every "
                                  "representative, and what it is")
                    elif slot == "proj_data" and o.cls is not None \
                            and o.cls.name == "Isometry" and h is not None \
                            and h.mixed and h.parts is not None and any(
                                m for d in h.parts if d not in ("*", "mixed")
                                for v, n_, m in d):
                        bad = next(d for d in h.parts
                                   if d not in ("*", "mixed")
                                   and any(m for v, n_, m in d))
                        verdict = "refuted"
                        detail = (f"some rows of the returned Isometry's "
                                  f"matrix are multiplied by "
                                  f"{HM.Hom(bad)!r} (a modulus, not only a "
                                  "sign): a matrix whose rows grow with the "
                                  "representative cannot preserve the "
                                  "Minkowski form, and what it is")
            if t.tainted is not None and verdict == "proved":
                verdict, detail = "undecided", t.tainted
        if failed is not None and verdict in ("proved", "object"):
            verdict, detail = "undecided", failed
        # E7 (a branch / validity guard decided by a scale-dependent test)
        # is not a violation: the library's validity guards compare raw
        # homogeneous data with absolute tolerances by design (timelike_to,
        # the constructors), and the interpreter assumes they pass
        hard = [ev for ev in events if ev["kind"] in ("E2", "E5", "E1c", "E6",
                                                      "E8")
                or (ev["kind"] == "E3" and (
                    ev["fn"] is None or ev["fn"].name not in HOM_ROWSUM_OK))]
        if debug:
            print(rid, label, verdict, detail, [(e["kind"], e["fn"].name
                  if e["fn"] else None, e["stmt"].lineno) for e in events])
        if hard:
            ev = hard[0]
            fn = ev["fn"]
            rel = next((k for k, v in it.rel_prefix.items()
                        if v == ev["prefix"]), home_rel)
            line = getattr(ev["stmt"], "lineno", 0)
            txt = ast.unparse(ev["stmt"])[:120] if ev["stmt"] is not None \
                else ""
            r.violation(
                rid, f"{rel}::{fn.name if fn else '?'}|{ev['kind']}|"
                     f"{' '.join(txt.split())[:80]}",
                f"{rel}:{line}", txt,
                f"evaluating {label} (call path {' > '.join(ev['stack'])}): "
                f"{ev['msg']}. The result depends on "
                "which representative of a projective point happens to be "
                "stored", instance=inst)
            stats["refuted"] += 1
            continue
        base_label = label.replace(" [complex]", "")
        if verdict == "refuted" and base_label in HOM_VARIANT_BY_DESIGN:
            r.ok(rid, inst, loc(f, f.node), "",
                 "scale-dependent by definition: "
                 + HOM_VARIANT_BY_DESIGN[base_label])
            continue
        if verdict == "refuted":
            stats["refuted"] += 1
            r.violation(
                rid, f"{f.fq}|{label}|variant", loc(f, f.node), label,
                f"{detail} changes when the same input is given by another "
                "representative (coordinates multiplied by a non-zero, "
                "possibly negative scalar)", instance=inst)
        elif verdict == "proved" and not names:
            r.ok(rid, inst, loc(f, f.node), "",
                 "no input of this row is subject to rescaling (a definite "
                 "matrix / sign-carrying data): nothing to prove, no "
                 "scale-dependent construct met")
        elif verdict == "proved":
            stats["proved"] += 1
            r.ok(rid, inst, loc(f, f.node), "",
                 "every returned array is invariant under independent "
                 "rescaling of " + (", ".join(sorted(set(names))) or
                                    "the inputs"))
        elif verdict == "object":
            r.ok(rid, inst, loc(f, f.node), "",
                 "returns an object (projective data; no scale-free array "
                 "to judge); no scale-dependent transcendental function or "
                 "row sum on the way")
        else:
            stats["undecided"] += 1
            r.note(rid, loc(f, f.node), label, f"not judged: {detail}")
    for k, v in stats.items():
        r.extra[f"{rid}_{k}"] = r.extra.get(f"{rid}_{k}", 0) + v
    return stats


def rule_hom1(ctx, parts=("hyp", "proj", "cp1"), only=None, min_proved=0):
    r = ctx.r
    r.rule("HOM1", "homogeneity types: every array is tagged with how it "
                   "scales (|s|^m * sign/phase(s)^n per input object) when "
                   "the homogeneous coordinates of an input are multiplied "
                   "by s; tags are propagated through the interpreted "
                   "methods by exact transfer functions (products add, "
                   "quotients subtract, sqrt halves, abs drops the sign, "
                   "sums need equal tags ...). A returned coordinate / "
                   "distance / radius / angle array must be tagged "
                   "invariant; a known non-trivial tag, a transcendental "
                   "function of a scale-dependent quantity, or a sum over "
                   "rows that carry independent scales is a violation; an "
                   "unknown tag is no verdict")
    core = ctx.p.module_by_rel(CORE)
    proj = ctx.p.module_by_rel(PROJ_REL)
    tot = {"proved": 0, "refuted": 0, "undecided": 0, "rows": 0}

    def add(s):
        for k in tot:
            tot[k] += s[k]
    if "hyp" in parts:
        hyp = ctx.p.module_by_rel(HYP)
        lie = ctx.p.module_by_rel(LIE)
        it = Interp(hyp.tree, extra_trees=(("utils", core.tree),
                                           ("projective", proj.tree),
                                           ("lie", lie.tree)))
        it.project = ctx.p
        it.rel_prefix = {HYP: "", CORE: "utils", PROJ_REL: "projective",
                         LIE: "lie"}
        it.ctor_model = _hyp_ctor
        add(_run_hom_table(ctx, "HOM1", it, _sh5_table() + _hom_extra_table(),
                           HYP, only=only))
    if "proj" in parts:
        it = Interp(proj.tree, extra_trees=(("utils", core.tree),))
        it.project = ctx.p
        it.rel_prefix = {PROJ_REL: "", CORE: "utils"}
        it.ctor_model = _proj_ctor
        add(_run_hom_table(ctx, "HOM1", it, _sh7_table(), PROJ_REL,
                           only=only))
    if "proj-cx" in parts:
        it = Interp(proj.tree, extra_trees=(("utils", core.tree),))
        it.project = ctx.p
        it.rel_prefix = {PROJ_REL: "", CORE: "utils"}
        it.ctor_model = _proj_ctor
        add(_run_hom_table(ctx, "HOM1", it, [
            (lab + " [complex]",) + tuple(rest)
            for lab, *rest in _sh7_table()
            if "coords" in lab or "chart" in lab], PROJ_REL,
            complex_scale=True, only=only))
    if "cp1" in parts:
        cp1 = ctx.p.module_by_rel(CP1)
        it = Interp(cp1.tree, extra_trees=(("utils", core.tree),
                                           ("projective", proj.tree)))
        it.project = ctx.p
        it.rel_prefix = {CP1: "", CORE: "utils", PROJ_REL: "projective"}
        it.ctor_model = _cp1_ctor
        add(_run_hom_table(ctx, "HOM1", it, _sh6_table(), CP1,
                           complex_scale=True, only=only))
    if tot["proved"] < min_proved:
        raise AnalysisError(
            f"HOM1 proved only {tot['proved']} results invariant "
            f"(expected at least {min_proved}): the interpreter no longer "
            "follows the coordinate methods")
    return tot
