"""SH1 -- shape typing of the broadcasting kernel (C04)."""
import itertools

from ..project import AnalysisError, loc
from ..shape import (AArr, DataDependent, Interp, ShapeError, Unsupported,
                     bshape)

CORE = "geometry_tools/utils/core.py"

UNITS = [("vector", 1, ("n",)), ("pointpair/polygon", 2, ("k", "n")),
         ("transformation", 2, ("n", "n")), ("aux-edges", 3, ("k", 2, "n"))]
MODES = ["elementwise", "pairwise", "pairwise_reversed"]


def _ones_variants(shape, full):
    """Replace subsets of axes by literal 1 (size-1 composite axes)."""
    n = len(shape)
    if n == 0:
        return [tuple(shape)]
    subsets = []
    if full:
        for k in range(n + 1):
            subsets += list(itertools.combinations(range(n), k))
    else:
        subsets = [()] + [(i,) for i in range(n)]
    out = []
    for s in subsets:
        out.append(tuple(1 if i in s else d for i, d in enumerate(shape)))
    return out


def configs(tier):
    R = 2 if tier == "quick" else 3
    full = tier != "quick"
    for (uname, und, unit), mode in itertools.product(UNITS, MODES):
        for i in range(R + 1):
            for j in range(R + 1):
                if mode == "elementwise":
                    o1 = tuple(f"X{r}" for r in range(i, 0, -1))
                    o2 = tuple(f"X{r}" for r in range(j, 0, -1))
                else:
                    o1 = tuple(f"A{r}" for r in range(1, i + 1))
                    o2 = tuple(f"C{r}" for r in range(1, j + 1))
                for v1 in _ones_variants(o1, full):
                    for v2 in _ones_variants(o2, full):
                        yield uname, und, unit, mode, v1, v2


def expected(unit, mode, o1, o2):
    if mode == "elementwise":
        outer = bshape(o1, o2)
    elif mode == "pairwise":
        outer = tuple(o1) + tuple(o2)
    else:
        outer = tuple(o2) + tuple(o1)
    return outer + tuple(unit)


def rule_sh1(ctx):
    r = ctx.r
    r.rule("SH1", "abstract interpretation of utils.core.matrix_product / "
                  "expand_unit_axes / squeeze_excess / broadcast_match over "
                  "symbolic shapes: for every rank configuration the result "
                  "shape (and thereby the provenance of every axis) is the "
                  "documented one: elementwise -> broadcast(outer1, outer2) "
                  "+ unit; pairwise -> outer1 + outer2 + unit; "
                  "pairwise_reversed -> outer2 + outer1 + unit")
    m = ctx.p.module_by_rel(CORE)
    for fn in ("matrix_product", "expand_unit_axes", "squeeze_excess",
               "broadcast_match"):
        f = ctx.p.get_function(CORE, fn)
        r.analysed(f)
    mp = ctx.p.get_function(CORE, "matrix_product")
    it = Interp(m.tree)
    total = 0
    fails = {}
    samples = []
    for uname, und, unit, mode, o1, o2 in configs(ctx.tier):
        total += 1
        a1 = AArr(tuple(o1) + tuple(unit))
        a2 = AArr(tuple(o2) + ("n", "n"))
        want = expected(unit, mode, o1, o2)
        cfg = (f"{uname} {a1.shape} x matrices {a2.shape} "
               f"[{mode}]")
        try:
            got = it.call("matrix_product", [a1, a2, und, 2],
                          {"broadcast": mode})
            if not isinstance(got, AArr):
                raise ShapeError(f"returned {got!r}")
            if got.shape != want:
                raise ShapeError(f"result shape {got.shape}, documented "
                                 f"{want}")
            if len(samples) < 6 and total % 37 == 1:
                samples.append(f"{cfg} -> {got.shape}")
        except DataDependent as e:
            fails.setdefault((mode, uname, "data-dependent"), []).append(
                (cfg, str(e)))
        except ShapeError as e:
            fails.setdefault((mode, uname, "shape"), []).append((cfg, str(e)))
    r.extra["SH1_configurations"] = total
    r.extra["SH1_samples"] = samples
    by_mode = {}
    for (mode, uname, kind), lst in fails.items():
        by_mode.setdefault(mode, []).append((uname, kind, lst))
    for mode in MODES:
        for uname, und, unit in UNITS:
            inst = f"matrix_product[{mode}; {uname}]"
            bad = [x for x in by_mode.get(mode, []) if x[0] == uname]
            if not bad:
                r.ok("SH1", inst, loc(mp, mp.node), "",
                     "all rank configurations give the documented shape")
            else:
                _, kind, lst = bad[0]
                cfg, why = lst[0]
                r.violation(
                    "SH1", f"{mp.fq}|{mode}|{uname}", loc(mp, mp.node),
                    f"matrix_product(..., broadcast='{mode}')",
                    f"{len(lst)} rank configuration(s) fail for {uname} "
                    f"units; first: {cfg}: {why}. Axis bookkeeping of the "
                    "kernel no longer matches the documented layout, so "
                    "entry [i][j] of a composite result is not "
                    "transformation j applied to unit i",
                    instance=inst)
    # broadcast_match
    bm = ctx.p.get_function(CORE, "broadcast_match")
    R = 2 if ctx.tier == "quick" else 3
    nb = 0
    bad = []
    for i in range(R + 1):
        for j in range(R + 1):
            N = tuple(f"N{r}" for r in range(1, i + 1))
            M = tuple(f"M{r}" for r in range(1, j + 1))
            for vN in _ones_variants(N, ctx.tier != "quick"):
                for vM in _ones_variants(M, ctx.tier != "quick"):
                    nb += 1
                    a1 = AArr(vN + ("l1", "l2"))
                    a2 = AArr(vM + ("p1", "p2"))
                    try:
                        got = it.call("broadcast_match", [a1, a2, 2])
                        w1 = vN + vM + ("l1", "l2")
                        w2 = vN + vM + ("p1", "p2")
                        if not (isinstance(got, tuple) and len(got) == 2
                                and got[0].shape == w1 and got[1].shape == w2):
                            raise ShapeError(
                                f"returned {got}, documented ({w1}, {w2})")
                    except (ShapeError, DataDependent) as e:
                        bad.append((f"{a1.shape}, {a2.shape}", str(e)))
    r.extra["SH1_broadcast_match_configurations"] = nb
    if not bad:
        r.ok("SH1", "broadcast_match", loc(bm, bm.node), "",
             f"{nb} configurations give (N.., M.., unit) for both outputs")
    else:
        r.violation("SH1", f"{bm.fq}|shapes", loc(bm, bm.node),
                    "broadcast_match",
                    f"{len(bad)} configuration(s) fail; first: {bad[0][0]}: "
                    f"{bad[0][1]}", instance="broadcast_match")
    return total
