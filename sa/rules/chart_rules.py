"""C16 / C01 chart rules: C1 (complex-preserving decision), chart-slot
agreement, rejection guard of affine_coords."""
import ast

from ..project import AnalysisError, loc, norm_stmt
from ..flow import dotted
from ..norm import single_defs

PROJ = "geometry_tools/projective.py"

REAL_CASTS_FUNCS = {"np.real", "float", "np.float64", "np.float32",
                    "utils.real", "np.double"}
MODULUS = {"np.abs", "abs", "np.absolute", "np.fabs", "np.linalg.norm"}
FLOATISH = ("float", "f8", "f4", "double", "int", "i8", "i4")


def _is_real_cast(n):
    """Is call/attribute n a cast that drops the imaginary part?"""
    if isinstance(n, ast.Call):
        name = dotted(n.func)
        if name in REAL_CASTS_FUNCS:
            return n.args[0] if n.args else None
        if isinstance(n.func, ast.Attribute) and n.func.attr == "astype" \
                and n.args:
            a = n.args[0]
            txt = dotted(a).lower()
            if isinstance(a, ast.Constant) and isinstance(a.value, str):
                txt = a.value.lower()
            if any(k in txt for k in FLOATISH) and "complex" not in txt:
                return n.func.value
    if isinstance(n, ast.Attribute) and n.attr == "real":
        return n.value
    return None


def _is_modulus(e):
    return isinstance(e, ast.Call) and dotted(e.func) in MODULUS


def _zero(e):
    return isinstance(e, ast.Constant) and e.value in (0, 0.0)


def _inline(e, defs, depth=0):
    """Yield e and the definitions of the names it mentions."""
    yield e
    if depth > 4:
        return
    for n in ast.walk(e):
        if isinstance(n, ast.Name) and n.id in defs:
            yield from _inline(defs[n.id], defs, depth + 1)


def check_c1(ctx, f, cmp_node, inst):
    r = ctx.r
    defs = single_defs(f.node)
    operands = [cmp_node.left] + list(cmp_node.comparators)
    bad = None
    for op in operands:
        if _zero(op):
            continue
        for e in _inline(op, defs):
            for n in ast.walk(e):
                inner = _is_real_cast(n)
                if inner is not None and not _is_modulus(inner):
                    bad = (n, inner)
    con = dotted(cmp_node)
    if bad is None:
        r.ok("C1", inst, loc(f, cmp_node), con[:120],
             "operand is compared without a real-typed cast (or the cast "
             "applies to a modulus)")
    else:
        n, inner = bad
        r.violation(
            "C1", f"{f.fq}|{con}", loc(f, cmp_node), con[:160],
            f"the chart-membership decision compares `{dotted(n)}`: the cast "
            f"discards the imaginary part of `{dotted(inner)}`, so a point "
            "whose chart coordinate is purely imaginary (e.g. [1j, 1]) is "
            "reported outside the chart although the coordinate is non-zero",
            instance=inst)


def _index_core(sl):
    """The one selecting entry of a subscript: `k`, `(..., k)`,
    `(..., k, np.newaxis)`, `(..., k:k+1)` all select slot k."""
    elts = list(sl.elts) if isinstance(sl, ast.Tuple) else [sl]
    core = []
    for x in elts:
        if isinstance(x, ast.Constant) and x.value in (Ellipsis, None):
            continue
        if dotted(x) in ("np.newaxis", "None", "Ellipsis"):
            continue
        if isinstance(x, ast.Slice):
            if x.lower is None and x.upper is None:
                continue
            if x.lower is not None and x.step is None:
                core.append(dotted(x.lower))
                continue
        core.append(dotted(x))
    return core[0] if len(core) == 1 else dotted(sl)


def rule_c1(ctx):
    r = ctx.r
    r.rule("C1", "a comparison with zero that decides chart membership must "
                 "not route its operand through a real-typed cast "
                 "(astype(float..), np.real, float(), .real) unless the "
                 "operand is a modulus (np.abs)")
    r.rule("R1c", "affine_coords rejects points outside the chart: a "
                  "GeometryError is raised under a test on the chart "
                  "coordinate")
    f = ctx.p.get_function(PROJ, "affine_coords")
    r.analysed(f)
    guards = []
    for n in ast.walk(f.node):
        if isinstance(n, ast.If) and any(isinstance(x, ast.Raise)
                                         for s in n.body for x in ast.walk(s)):
            cmps = [c for c in ast.walk(n.test) if isinstance(c, ast.Compare)
                    and any(_zero(o) for o in [c.left] + c.comparators)]
            for c in cmps:
                guards.append((n, c))
    if not guards:
        r.violation(
            "R1c", f"{f.fq}|no-guard", loc(f, f.node), "affine_coords",
            "no conditional raise under a zero test of the chart coordinate "
            "was found: points outside the chart are divided by zero "
            "silently instead of being reported", instance="affine_coords")
    for n, c in guards:
        # the test must depend on the chart coordinate
        defs = single_defs(f.node)
        txt = " ".join(dotted(e) for e in _inline(c, defs))
        if "chart_index" in txt:
            r.ok("R1c", "affine_coords", loc(f, n), dotted(n.test)[:120],
                 "raises under a test of the chart coordinate")
        else:
            r.violation("R1c", f"{f.fq}|guard-operand", loc(f, n),
                        dotted(n.test)[:160],
                        "the rejecting test does not read the chart "
                        "coordinate (index chart_index)",
                        instance="affine_coords")
        check_c1(ctx, f, c, "affine_coords:chart-test")
    g = ctx.p.get_function(PROJ, "Point.in_affine_chart")
    r.analysed(g)
    cmps = [c for c in ast.walk(g.node) if isinstance(c, ast.Compare)]
    if not cmps:
        raise AnalysisError("Point.in_affine_chart: no comparison found")
    for c in cmps:
        check_c1(ctx, g, c, "Point.in_affine_chart")


def rule_chart_slot(ctx):
    """I1 for charts: one chart index on the set and the get path; the unit
    goes to the chart slot; division and deletion use the same index."""
    r = ctx.r
    r.rule("I1c", "chart-slot agreement: ProjectiveObject.affine_coords "
                  "forwards one chart_index to projective_coords (set) and "
                  "affine_coords (get); projective_coords stores the unit at "
                  "[..., chart_index]; affine_coords divides by and deletes "
                  "the same index")
    f = ctx.p.get_function(PROJ, "ProjectiveObject.affine_coords")
    r.analysed(f)
    seen = {}
    for n in ast.walk(f.node):
        if isinstance(n, ast.Call) and dotted(n.func) in (
                "projective_coords", "affine_coords"):
            val = None
            for k in n.keywords:
                if k.arg == "chart_index":
                    val = dotted(k.value)
            if val is None and len(n.args) > 1:
                val = dotted(n.args[1])
            seen[dotted(n.func)] = (val, n)
    if set(seen) != {"projective_coords", "affine_coords"}:
        raise AnalysisError("ProjectiveObject.affine_coords: set/get "
                            "delegates not found")
    vs = {v[0] for v in seen.values()}
    if vs == {"chart_index"}:
        r.ok("I1c", "ProjectiveObject.affine_coords", loc(f, f.node), "",
             "set and get both receive chart_index=chart_index")
    else:
        n = seen["affine_coords"][1]
        r.violation("I1c", f"{f.fq}|chart_index", loc(f, n), dotted(n)[:160],
                    f"set path uses chart index {seen['projective_coords'][0]!r}, "
                    f"get path {seen['affine_coords'][0]!r}: coordinates are "
                    "written in one chart and read in another",
                    instance="ProjectiveObject.affine_coords")
    # projective_coords: unit to the chart slot
    g = ctx.p.get_function(PROJ, "projective_coords")
    r.analysed(g)
    defs = single_defs(g.node)
    unit_ok = False
    for n in ast.walk(g.node):
        if isinstance(n, ast.Assign) and isinstance(n.targets[0], ast.Subscript):
            t = n.targets[0]
            if dotted(t.slice).replace(" ", "") in ("(...,chart_index)",
                                                    "...,chart_index"):
                v = n.value
                if isinstance(v, ast.Name) and v.id in defs:
                    v = defs[v.id]
                txt = dotted(v)
                if txt in ("1", "1.0") or txt.startswith("utils.number(1") \
                        or txt.startswith("number(1"):
                    unit_ok = True
                    r.ok("I1c", "projective_coords:unit", loc(g, n),
                         norm_stmt(n), "stores 1 in the chart slot")
    if not unit_ok:
        r.violation("I1c", f"{g.fq}|unit", loc(g, g.node), "projective_coords",
                    "no store of the unit 1 into result[..., chart_index] "
                    "was found", instance="projective_coords:unit")
    shift = [n for n in ast.walk(g.node) if isinstance(n, ast.AugAssign)
             and isinstance(n.target, ast.Subscript)]
    sh_ok = any(dotted(n.target.slice).replace(" ", "") == "chart_index:"
                and isinstance(n.op, ast.Add) and dotted(n.value) == "1"
                for n in shift)
    if shift:
        if sh_ok:
            r.ok("I1c", "projective_coords:shift", loc(g, shift[0]),
                 norm_stmt(shift[0]), "affine slots at and after chart_index "
                 "are shifted by one")
        else:
            r.violation("I1c", f"{g.fq}|shift", loc(g, shift[0]),
                        norm_stmt(shift[0]),
                        "the affine-coordinate slots are not shifted by one "
                        "from chart_index onward: a coordinate collides with "
                        "the chart slot", instance="projective_coords:shift")
    # affine_coords: divide by and delete the same index
    h = ctx.p.get_function(PROJ, "affine_coords")
    idx = set()
    for n in ast.walk(h.node):
        if isinstance(n, ast.Call) and dotted(n.func) == "np.delete" \
                and len(n.args) >= 2:
            idx.add(("delete", dotted(n.args[1])))
            for d in ast.walk(n.args[0]):
                if isinstance(d, ast.BinOp) and isinstance(d.op, ast.Div) \
                        and isinstance(d.right, ast.Subscript):
                    idx.add(("divide", _index_core(d.right.slice)))
    names = {v for _, v in idx}
    kinds = {k for k, _ in idx}
    if kinds == {"delete", "divide"} and len(names) == 1:
        r.ok("I1c", "affine_coords:index", loc(h, h.node), "",
             f"divides by and deletes index {names.pop()}")
    elif kinds == {"delete", "divide"}:
        r.violation("I1c", f"{h.fq}|index", loc(h, h.node), "affine_coords",
                    f"divides by one index and deletes another: {sorted(idx)}",
                    instance="affine_coords:index")
    else:
        r.note("I1c", loc(h, h.node), "affine_coords",
               "division/deletion idiom not recognised; not judged")
