"""Cross-cutting rules: U1 (unbound names from entry points), helpers."""
import ast

from ..project import AnalysisError, loc, norm_stmt


def entries(ctx, table):
    """table: list of (rel, qualname) -> FunctionInfo list.  A missing entry
    point is reported as a NOTE; if more than a third are gone the table is
    stale and the run is an ANALYSIS-ERROR."""
    out = []
    missing = []
    for rel, q in table:
        try:
            out.append(ctx.p.get_function(rel, q))
        except AnalysisError as e:
            missing.append(f"{rel}::{q}")
    for m in missing:
        ctx.r.note("U1", m, m, "entry point of the frozen table no longer "
                   "exists; skipped")
    if len(missing) * 3 > len(table):
        raise AnalysisError("entry-point table is stale: missing "
                            + ", ".join(missing))
    return out


def u1(ctx, entry_table, min_functions=1, extra_note=""):
    """U1: no unbound name is read in a function reachable from the entry
    points, except on error paths / under flags constant in the project."""
    r = ctx.r
    r.rule("U1", "a name read in a function reachable (CHA call graph) from "
                 "the property's entry points must be bound in an enclosing "
                 "scope, the module, a star-import or builtins; sites inside a "
                 "raise or under a flag no call site sets are NOTEs")
    ents = entries(ctx, entry_table)
    reach = ctx.cg.reachable(ents)
    r.require_count("U1", "reachable functions", len(reach), min_functions)
    nlive = 0
    for f in sorted(reach, key=lambda x: x.fq):
        if f.parent is not None:
            continue
        r.analysed(f)
        ubs = ctx.ba.unbound_in(f)
        if not ubs:
            r.ok("U1", f.fq, f"{f.module.rel}:{f.node.lineno}",
                 "", "all names bound")
            continue
        seen = set()
        for u in ubs:
            if (u.name, u.klass) in seen:
                continue
            seen.add((u.name, u.klass))
            where = loc(f, u.node)
            stmt = _enclosing_stmt(f, u.node)
            if u.klass == "live":
                nlive += 1
                r.violation(
                    "U1", f"{f.fq}|{u.name}", where, norm_stmt(stmt)[:160],
                    f"name '{u.name}' is read in {f.qualname} but bound in no "
                    f"enclosing scope, module, star-import or builtins -> "
                    f"NameError whenever this statement runs",
                    instance=f"{f.fq}:{u.name}",
                    path=ctx.cg.path_to(reach, f))
            else:
                r.note("U1", where, u.name,
                       f"unbound name '{u.name}' in {f.qualname} is "
                       f"{u.klass} ({u.why}); out of the property's scope")
    return reach


def _enclosing_stmt(f, node):
    parents = f.module.parents
    cur = node
    while cur in parents and not isinstance(cur, ast.stmt):
        cur = parents[cur]
    return cur


def find_calls(node, pred):
    return [n for n in ast.walk(node) if isinstance(n, ast.Call) and pred(n)]


def call_name(call):
    """Dotted source name of the callee expression ('np.arccosh')."""
    try:
        return ast.unparse(call.func)
    except Exception:
        return "?"


def body_stmts(fnode):
    """All statements of a function, recursively."""
    for n in ast.walk(fnode):
        if isinstance(n, ast.stmt) and n is not fnode:
            yield n


def const_value(node, default=None):
    if isinstance(node, ast.Constant):
        return node.value
    if isinstance(node, ast.UnaryOp) and isinstance(node.op, ast.USub) \
            and isinstance(node.operand, ast.Constant):
        return -node.operand.value
    return default
