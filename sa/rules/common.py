"""Cross-cutting rules: U1 (unbound names from entry points), helpers."""
import ast

from ..project import AnalysisError, loc, norm_stmt


def entries(ctx, table):
    """table: list of (rel, qualname) -> FunctionInfo list.  A missing entry
    point is reported as a NOTE; if more than a third are gone the table is
    stale and the run is an ANALYSIS-ERROR."""
    out = []
    missing = []
    for rel, q in table:
        try:
            out.append(ctx.p.get_function(rel, q))
        except AnalysisError as e:
            missing.append(f"{rel}::{q}")
    for m in missing:
        ctx.r.note("U1", m, m, "entry point of the frozen table no longer "
                   "exists; skipped")
    if len(missing) * 3 > len(table):
        raise AnalysisError("entry-point table is stale: missing "
                            + ", ".join(missing))
    return out


def u1(ctx, entry_table, min_functions=1, extra_note=""):
    """U1: no unbound name is read in a function reachable from the entry
    points, except on error paths / under flags constant in the project."""
    r = ctx.r
    r.rule("U1", "a name read in a function reachable (CHA call graph) from "
                 "the property's entry points must be bound in an enclosing "
                 "scope, the module, a star-import or builtins; sites inside a "
                 "raise or under a flag no call site sets are NOTEs")
    ents = entries(ctx, entry_table)
    reach = ctx.cg.reachable(ents)
    precise_reach = ctx.cg.reachable(ents, precise=True)
    r.require_count("U1", "reachable functions", len(reach), min_functions)
    nlive = 0
    for f in sorted(reach, key=lambda x: x.fq):
        if f.parent is not None:
            continue
        r.analysed(f)
        ubs = ctx.ba.unbound_in(f)
        if not ubs:
            r.ok("U1", f.fq, f"{f.module.rel}:{f.node.lineno}",
                 "", "all names bound")
            continue
        seen = set()
        for u in ubs:
            if (u.name, u.klass) in seen:
                continue
            seen.add((u.name, u.klass))
            where = loc(f, u.node)
            stmt = _enclosing_stmt(f, u.node)
            if u.klass == "live" and f not in precise_reach:
                r.note("U1", where, u.name,
                       f"unbound name '{u.name}' in {f.qualname}: NameError "
                       "when it runs, but the function is reachable from "
                       "this property's entry points only through "
                       "name-based dispatch on an unknown receiver "
                       "(not attributed to this property)")
            elif u.klass == "live":
                nlive += 1
                r.violation(
                    "U1", f"{f.fq}|{u.name}", where, norm_stmt(stmt)[:160],
                    f"name '{u.name}' is read in {f.qualname} but bound in no "
                    f"enclosing scope, module, star-import or builtins -> "
                    f"NameError whenever this statement runs",
                    instance=f"{f.fq}:{u.name}",
                    path=ctx.cg.path_to(precise_reach, f))
            elif u.klass == "latent" and f.parent is None and not any(
                    part.startswith("_") for part in f.qualname.split(".")):
                # the arm is dead for every call inside the package, but the
                # function is public and the flag is one of its documented
                # parameters: a user who sets it gets the NameError
                nlive += 1
                r.violation(
                    "U1", f"{f.fq}|{u.name}", where, norm_stmt(stmt)[:160],
                    f"name '{u.name}' is read in the public function "
                    f"{f.qualname} but bound nowhere ({u.why}; the package "
                    "itself never takes this arm, a caller who sets the "
                    "flag does) -> NameError",
                    instance=f"{f.fq}:{u.name}",
                    path=ctx.cg.path_to(precise_reach, f))
            else:
                r.note("U1", where, u.name,
                       f"unbound name '{u.name}' in {f.qualname} is "
                       f"{u.klass} ({u.why}); out of the property's scope")
    # attribute / arity resolution (same family: the statement cannot run)
    r.rule("U1m", "an attribute read on a project module must be bound in "
                  "that module (else AttributeError)")
    r.rule("U1a", "an attribute read on self must be defined somewhere in "
                  "the class hierarchy (method, class attribute or "
                  "self.x = assignment)")
    r.rule("A1", "a call whose callee resolves to exactly one project "
                 "function passes no more positionals / unknown keywords "
                 "than the signature accepts and supplies the required "
                 "parameters; a violation only when the caller is reachable "
                 "from the entry points without name-based CHA edges")
    precise = ctx.cg.reachable(ents, precise=True)
    for f in sorted(reach, key=lambda x: x.fq):
        if f.parent is not None:
            continue
        seen = set()
        for rule, node, name, msg in resolution_sites(ctx, f):
            if (rule, name) in seen:
                continue
            seen.add((rule, name))
            where = loc(f, node)
            stmt = _enclosing_stmt(f, node)
            klass, why = ctx.ba.classify(f, node)
            live = klass == "live" and f in precise
            if live:
                r.violation(rule, f"{f.fq}|{name}", where,
                            norm_stmt(stmt)[:160], msg,
                            instance=f"{f.fq}:{name}",
                            path=ctx.cg.path_to(
                                precise if f in precise else reach, f))
            else:
                r.note(rule, where, name,
                       msg + (f" [{klass}: {why}]" if klass != "live" else
                              " [caller only reachable through name-based "
                              "dispatch; latent]"))
    return reach


def _class_family(p, c):
    fam = list(p.mro(c)) + p.subclasses(c)
    for s in list(fam):
        for x in p.mro(s):
            if x not in fam:
                fam.append(x)
    return fam


def _known_attrs(p, c):
    cache = p.__dict__.setdefault("_known_attr_cache", {})
    key = c.fq
    if key in cache:
        return cache[key]
    from ..project import External
    names = set()
    ext = False
    for k in _class_family(p, c):
        names |= set(k.methods) | set(k.attrs)
        for b in k.bases:
            if isinstance(b, External) and b.dotted not in (
                    "builtins.object",):
                ext = True
            if b is None:
                ext = True
        for m in k.methods.values():
            for n in ast.walk(m.node):
                if isinstance(n, ast.Attribute) \
                        and isinstance(n.ctx, (ast.Store, ast.Del)) \
                        and isinstance(n.value, ast.Name) \
                        and n.value.id == "self":
                    names.add(n.attr)
    cache[key] = (names, ext)
    return cache[key]


def resolution_sites(ctx, f):
    """U1m / U1a / A1 candidates in function f.
    -> list of (rule, node, name, message)"""
    from ..project import ClassInfo, External, FunctionInfo, Module
    p = ctx.p
    out = []
    locs = ctx.cg._locals(f)
    for n in ast.walk(f.node):
        if isinstance(n, ast.Attribute) and isinstance(n.ctx, ast.Load):
            v = n.value
            if isinstance(v, ast.Name) and v.id == "self" \
                    and f.cls is not None and not f.is_static \
                    and "self" in f.params[:1]:
                names, ext = _known_attrs(p, f.cls)
                if n.attr not in names and not n.attr.startswith("__") \
                        and not ext:
                    out.append(("U1a", n, f"self.{n.attr}",
                                f"attribute `{n.attr}` is read on self in "
                                f"{f.qualname} but no class in the hierarchy "
                                f"of {f.cls.name} defines a method, class "
                                "attribute or `self." + n.attr + " = ...` "
                                "assignment of that name -> AttributeError"))
                continue
            if isinstance(v, ast.Name) and v.id in locs:
                continue
            base = p.resolve_expr(f.module, v)
            if isinstance(base, Module):
                if p.lookup(base, n.attr) is None \
                        and not p.module_binds(base, n.attr):
                    out.append(("U1m", n, ast.unparse(n),
                                f"`{ast.unparse(n)}`: module {base.name} "
                                f"binds no name `{n.attr}` -> AttributeError "
                                "when this expression is evaluated"))
    for cs in ctx.cg.sites.get(f, []):
        if len(cs.targets) != 1 or cs.kind not in ("func", "ctor", "method"):
            continue
        call = cs.node
        if any(isinstance(a, ast.Starred) for a in call.args):
            continue
        t = cs.targets[0]
        g = t
        bound = False
        if isinstance(t, ClassInfo):
            g = p.find_method(t, "__init__")
            bound = True
            if g is None:
                continue
        elif g.cls is not None and not g.is_static:
            base = p.resolve_expr(f.module, call.func.value) \
                if isinstance(call.func, ast.Attribute) else None
            bound = not isinstance(base, ClassInfo)
        params = g.params[1:] if bound else g.params
        if any(d in ("property",) for d in g.decorators):
            continue
        if g.decorators and not (g.is_static or g.is_classmethod):
            wrapped = [d for d in g.decorators
                       if d not in ("staticmethod", "classmethod")]
            if wrapped:
                continue        # wrapper may change the signature
        npos = len(call.args)
        if npos > len(params) and not g.has_varargs:
            out.append(("A1", call, ast.unparse(call.func),
                        f"{npos} positional arguments are passed to "
                        f"{g.qualname}{tuple(params)}, which accepts "
                        f"{len(params)} -> TypeError at this call"))
            continue
        for k in call.keywords:
            if k.arg and k.arg not in params + g.kwonly and not g.has_kwargs:
                out.append(("A1", call, ast.unparse(call.func),
                            f"keyword `{k.arg}` is not a parameter of "
                            f"{g.qualname}{tuple(params)} -> TypeError"))
        if not any(k.arg is None for k in call.keywords):
            nreq = len(params) - len([q for q in params if q in g.defaults()])
            given = set(params[:npos]) | {k.arg for k in call.keywords}
            miss = [q for q in params[:nreq] if q not in given]
            if miss:
                out.append(("A1", call, ast.unparse(call.func),
                            f"required parameter(s) {miss} of {g.qualname} "
                            "are not supplied -> TypeError"))
    return out


def _enclosing_stmt(f, node):
    parents = f.module.parents
    cur = node
    while cur in parents and not isinstance(cur, ast.stmt):
        cur = parents[cur]
    return cur


def find_calls(node, pred):
    return [n for n in ast.walk(node) if isinstance(n, ast.Call) and pred(n)]


def call_name(call):
    """Dotted source name of the callee expression ('np.arccosh')."""
    try:
        return ast.unparse(call.func)
    except Exception:
        return "?"


def body_stmts(fnode):
    """All statements of a function, recursively."""
    for n in ast.walk(fnode):
        if isinstance(n, ast.stmt) and n is not fnode:
            yield n


def const_value(node, default=None):
    if isinstance(node, ast.Constant):
        return node.value
    if isinstance(node, ast.UnaryOp) and isinstance(node.op, ast.USub) \
            and isinstance(node.operand, ast.Constant):
        return -node.operand.value
    return default


# ---------------------------------------------------------------------------
# N1: None-sentinel discipline


# parameters that are genuine booleans with a None default (frozen, with reason)
N1_BOOLISH = {
    "simple": "Representation.parse_word: bool flag, None means 'use "
              "self.parse_simple'; tested after being defaulted",
    "parse_simple": "bool flag",
    "verbose": "bool flag",
}
# files of the not-applicable property C07 (out of every claimed scope)
N1_SKIP_FILES = {"geometry_tools/automata/coxeter_automaton.py",
                 "geometry_tools/utils/sagewrap.py",
                 "geometry_tools/utils/snappy.py"}


def _bool_context_exprs(fnode):
    """Expressions evaluated for their truth value."""
    out = []

    def mark(e):
        if isinstance(e, ast.BoolOp):
            for v in e.values:
                mark(v)
        elif isinstance(e, ast.UnaryOp) and isinstance(e.op, ast.Not):
            mark(e.operand)
        else:
            out.append(e)
    for n in ast.walk(fnode):
        if isinstance(n, (ast.If, ast.While, ast.IfExp, ast.Assert)):
            mark(n.test)
        elif isinstance(n, ast.comprehension):
            for c in n.ifs:
                mark(c)
        elif isinstance(n, ast.BoolOp):
            # in value context only the non-final operands are truth-tested
            for v in n.values[:-1]:
                mark(v)
        elif isinstance(n, ast.UnaryOp) and isinstance(n.op, ast.Not):
            mark(n.operand)
    return out


def n1(ctx, rels, lookup_rels=(), scope=None):
    """N1: a parameter whose default is None is a sentinel: it must be tested
    with `is None` / `is not None`, never by truthiness (legal values such as
    vertex 0, the start state '', chart index 0 or a zero label are falsy).
    In `lookup_rels`, `<lookup> or <constant>` defaults are flagged too."""
    r = ctx.r
    r.rule("N1", "a None-default parameter is tested by identity (`is None`),"
                 " never by truthiness (`if p`, `not p`, `p or d`): vertices "
                 "0 / '' , chart index 0 and the label 0 (infinite order) "
                 "are legal falsy values; likewise `lookup(..) or const` on "
                 "label/vertex containers")
    n_params = 0
    for rel in rels:
        m = ctx.p.module_by_rel(rel)
        if rel in N1_SKIP_FILES:
            continue
        for f in ctx.p.all_functions:
            if f.module is not m:
                continue
            top = f
            while top.parent is not None:
                top = top.parent
            if scope is not None and top not in scope:
                continue
            d = f.defaults()
            nonep = {k for k, v in d.items()
                     if isinstance(v, ast.Constant) and v.value is None
                     and k not in N1_BOOLISH}
            n_params += len(nonep)
            if not nonep and rel not in lookup_rels:
                continue
            bad = []
            for e in _bool_context_exprs(f.node):
                if isinstance(e, ast.Name) and e.id in nonep:
                    bad.append((e, f"parameter `{e.id}` (default None) is "
                                   "tested by truthiness"))
                if rel in lookup_rels and isinstance(e, ast.Call) \
                        and isinstance(e.func, ast.Attribute) \
                        and e.func.attr == "get":
                    bad.append((e, f"`{ast.unparse(e)}` is tested by "
                                   "truthiness (`or`-default on a lookup)"))
            if nonep:
                r.analysed(f)
            for e, why in bad:
                st = _enclosing_stmt(f, e)
                r.violation(
                    "N1", f"{f.fq}|{norm_stmt(st)[:100]}", loc(f, e),
                    norm_stmt(st)[:160],
                    why + ": a legal falsy value (vertex 0, state '', chart "
                    "index 0, label 0 = infinite order) is silently replaced "
                    "by the default / treated as absent",
                    instance=f"{f.qualname}:{ast.unparse(e)[:40]}")
            if nonep and not bad:
                r.ok("N1", f.fq, loc(f, f.node), "",
                     f"None-default parameter(s) {sorted(nonep)} only tested "
                     "by identity")
    return n_params



_MIRROR = {ast.Lt: ast.Gt, ast.Gt: ast.Lt, ast.LtE: ast.GtE, ast.GtE: ast.LtE,
           ast.Eq: ast.Eq, ast.NotEq: ast.NotEq}


def norm_compare(c):
    """A single comparison with a constant operand moved to the right:
    -> (left expr, op class, right expr), or None.  `0 >= x` is `x <= 0`."""
    if not (isinstance(c, ast.Compare) and len(c.ops) == 1):
        return None
    a, b, op = c.left, c.comparators[0], type(c.ops[0])
    if isinstance(a, ast.Constant) or (
            isinstance(a, ast.UnaryOp) and isinstance(a.operand,
                                                      ast.Constant)):
        if op not in _MIRROR:
            return None
        return b, _MIRROR[op], a
    return a, op, b


# ---------------------------------------------------------------------------
# conditions in force at a statement (syntax-directed, no loops unrolled)

_LEAVES = (ast.Return, ast.Raise, ast.Continue, ast.Break)


def path_conditions(fnode):
    """id(stmt) -> list of (test expression, polarity) known to hold whenever
    the statement executes: tests of enclosing `if`s (negated in the else
    arm) and of earlier `if`s of the same block one of whose arms always
    leaves the block."""
    out = {}

    def leaves(block):
        return bool(block) and isinstance(block[-1], _LEAVES)

    def walk(stmts, conds):
        conds = list(conds)
        for s in stmts:
            out[id(s)] = list(conds)
            if isinstance(s, ast.If):
                walk(s.body, conds + [(s.test, True)])
                walk(s.orelse, conds + [(s.test, False)])
                if leaves(s.body) and not leaves(s.orelse):
                    conds = conds + [(s.test, False)]
                elif leaves(s.orelse) and not leaves(s.body):
                    conds = conds + [(s.test, True)]
                continue
            for attr in ("body", "orelse", "finalbody"):
                b = getattr(s, attr, None)
                if isinstance(b, list) and not isinstance(
                        s, (ast.FunctionDef, ast.AsyncFunctionDef,
                            ast.ClassDef)):
                    walk(b, conds)
            for h in getattr(s, "handlers", []):
                walk(h.body, conds)
    walk(fnode.body, [])
    return out


def stmt_of(node, parents):
    cur = node
    while cur is not None and not isinstance(cur, ast.stmt):
        cur = parents.get(cur)
    return cur
