"""Rules over representation.py / coxeter.py: inverse-transpose composition,
HAD (no Hadamard product of matrices), inverse store, word fold, W1."""
import ast

from ..project import AnalysisError, ClassInfo, loc, norm_stmt
from ..flow import dotted, eval_test
from ..norm import single_defs
from ..rules.common import const_value

REP = "geometry_tools/representation.py"
COX = "geometry_tools/coxeter.py"
PROJ = "geometry_tools/projective.py"
HYP = "geometry_tools/hyperbolic.py"


def ops_chain(e, param):
    """Peel inverse / transpose operations down to `param`.
    -> list of 'inv'/'T' or None if the expression is something else."""
    ops = []
    while True:
        if isinstance(e, ast.Name):
            return ops if e.id == param else None
        if isinstance(e, ast.Attribute) and dotted(e) in (
                "self.matrix", "self.proj_data") and param in (
                "matrix", "self.matrix"):
            return ops
        if isinstance(e, ast.Attribute) and e.attr == "T":
            ops.append("T")
            e = e.value
            continue
        if isinstance(e, ast.Call):
            n = dotted(e.func)
            if n in ("utils.invert", "np.linalg.inv", "invert",
                     "numpy.linalg.inv") and len(e.args) == 1:
                ops.append("inv")
                e = e.args[0]
                continue
            if n in ("np.transpose", "np.swapaxes") and e.args:
                ops.append("T")
                e = e.args[0]
                continue
            if isinstance(e.func, ast.Attribute) and e.func.attr in (
                    "swapaxes", "transpose"):
                if e.func.attr == "swapaxes":
                    vals = sorted(const_value(a, 99) for a in e.args)
                    if vals != [-2, -1]:
                        return None
                ops.append("T")
                e = e.func.value
                continue
        return None


def check_inverse_transpose(r, f, call, inst, rule="DU"):
    """call: X.compose(lambda ..) / self._compose(lambda ..)"""
    lam = None
    for a in list(call.args) + [k.value for k in call.keywords]:
        if isinstance(a, ast.Lambda):
            lam = a
        elif isinstance(a, ast.Name):
            # a named inner function with a single `return <expr>`
            for d in ast.walk(f.node):
                if isinstance(d, ast.FunctionDef) and d.name == a.id \
                        and d is not f.node:
                    body = [x for x in d.body if not (
                        isinstance(x, ast.Expr)
                        and isinstance(x.value, ast.Constant))]
                    if len(body) == 1 and isinstance(body[0], ast.Return) \
                            and body[0].value is not None:
                        lam = ast.Lambda(args=d.args, body=body[0].value)
                        ast.copy_location(lam, d)
    if lam is None:
        r.note(rule, loc(f, call), dotted(call)[:120],
               "the composed map is not a lambda / single-return inner "
               "function the rule can read (not judged)")
        return
    if len(lam.args.args) != 1:
        r.violation(rule, f"{f.fq}|{inst}|shape", loc(f, call),
                    dotted(call)[:140],
                    "the dual is not built by composing with a "
                    "one-argument map; inverse-transpose not recognisable",
                    instance=inst)
        return
    ops = ops_chain(lam.body, lam.args.args[0].arg)
    if ops is not None and sorted(ops) == ["T", "inv"]:
        r.ok(rule, inst, loc(f, lam), dotted(lam),
             "composes each generator with inverse and transpose, once each")
    else:
        r.violation(
            rule, f"{f.fq}|{inst}|ops", loc(f, lam), dotted(lam)[:140],
            f"the composed map applies {ops if ops is not None else 'an unrecognised expression'} "
            "instead of exactly one inverse and one transpose: the result "
            "is not the dual (contragredient) representation",
            instance=inst)


def rule_dual(ctx):
    r = ctx.r
    r.rule("DU", "the canonical (dual) representation is the geometric one "
                 "composed with exactly one inverse and one transpose, in "
                 "either order; hyperbolic_rep requests diagonalize=True")
    f = ctx.p.get_function(COX, "CoxeterGroup.canonical_representation")
    r.analysed(f)
    from ..norm import forward_subst
    rets, _ = forward_subst(f.node)
    calls = [n for e in rets if e is not None for n in ast.walk(e)
             if isinstance(n, ast.Call)
             and isinstance(n.func, ast.Attribute)
             and n.func.attr in ("compose", "_compose")]
    if len(calls) != 1:
        r.violation("DU", f"{f.fq}|compose", loc(f, f.node),
                    "canonical_representation",
                    "does not compose a representation with a dualising map",
                    instance="canonical_representation")
    else:
        c = calls[0]
        base = c.func.value
        if isinstance(base, ast.Call) and dotted(base.func) == \
                "self.geometric_representation":
            r.ok("DU", "canonical_representation:base", loc(f, f.node),
                 dotted(base)[:80], "built from the geometric representation")
        else:
            r.violation("DU", f"{f.fq}|base", loc(f, f.node), dotted(c)[:120],
                        "the canonical representation is not derived from "
                        "self.geometric_representation(..)",
                        instance="canonical_representation:base")
        check_inverse_transpose(r, f, c, "canonical_representation:dual")
    g = ctx.p.get_function(COX, "CoxeterGroup.hyperbolic_rep")
    r.analysed(g)
    ok = False
    site = g.node
    for n in ast.walk(g.node):
        if isinstance(n, ast.Call) and dotted(n.func) == \
                "self.geometric_representation":
            site = n
            for k in n.keywords:
                if k.arg == "diagonalize" and const_value(k.value) is True:
                    ok = True
    if ok:
        r.ok("DU", "hyperbolic_rep:diagonalize", loc(g, site),
             dotted(site)[:100], "requests the diagonalised form")
    else:
        r.violation("DU", f"{g.fq}|diagonalize", loc(g, site),
                    dotted(site)[:140],
                    "hyperbolic_rep does not request diagonalize=True: the "
                    "matrices preserve the cosine form, not the Minkowski "
                    "form the Isometry wrapper assumes",
                    instance="hyperbolic_rep:diagonalize")
    h = ctx.p.get_function(COX, "CoxeterGroup.cartan_representation")
    r.analysed(h)
    # diagonalising conjugation: Winv @ mat @ W
    lam = [n for n in ast.walk(h.node) if isinstance(n, ast.Lambda)]
    # W and its inverse are the first / second result of diagonalize_form
    # (possibly re-typed afterwards), whatever they are called
    w_name, wi_name = "W", "Winv"
    for n in ast.walk(h.node):
        if isinstance(n, ast.Assign) and isinstance(n.value, ast.Call) \
                and dotted(n.value.func).endswith("diagonalize_form") \
                and isinstance(n.targets[0], ast.Tuple) \
                and len(n.targets[0].elts) == 2:
            w_name, wi_name = (dotted(e) for e in n.targets[0].elts)
    good = False
    for L in lam:
        b = L.body
        if isinstance(b, ast.BinOp) and isinstance(b.op, ast.MatMult):
            parts = []

            def flat(x):
                if isinstance(x, ast.BinOp) and isinstance(x.op, ast.MatMult):
                    flat(x.left)
                    flat(x.right)
                else:
                    parts.append(dotted(x))
            flat(b)
            if len(parts) == 3 and parts[1] == L.args.args[0].arg \
                    and {parts[0], parts[2]} == {w_name, wi_name}:
                good = parts
    if good:
        if good[0] == wi_name:
            r.ok("DU", "cartan_representation:conjugation", loc(h, lam[0]),
                 dotted(lam[0]), "conjugates as Winv @ mat @ W (W^T B W = D)")
        else:
            r.violation("DU", f"{h.fq}|conjugation", loc(h, lam[0]),
                        dotted(lam[0]),
                        "diagonalising conjugation is W @ mat @ Winv; with "
                        "W^T B W = D the form-preserving conjugate is "
                        "Winv @ mat @ W", instance="cartan_representation")
    else:
        r.note("DU", loc(h, h.node), "cartan_representation",
               "diagonalising conjugation idiom not recognised; not judged")


# ---------------------------------------------------------------------------
# W1 wrap parity


def _wrap_info(f):
    """-> (class name constructed, column_vectors literal) or 'identity'."""
    rets = [n for n in ast.walk(f.node) if isinstance(n, ast.Return)]
    if len(rets) != 1:
        return None
    v = rets[0].value
    if isinstance(v, ast.Name) and v.id == f.params[0]:
        return ("identity", None)
    if isinstance(v, ast.Call):
        cv = False
        for k in v.keywords:
            if k.arg == "column_vectors":
                cv = const_value(k.value, "?")
        if len(v.args) > 1:
            cv = const_value(v.args[1], "?")
        return (dotted(v.func), cv)
    return None


def _unwrap_info(f):
    rets = [n for n in ast.walk(f.node) if isinstance(n, ast.Return)]
    if len(rets) != 1:
        return None
    v = rets[0].value
    p = f.params[0]
    if isinstance(v, ast.Name) and v.id == p:
        return "identity"
    # peel transposes
    t = 0
    e = v
    while True:
        if isinstance(e, ast.Attribute) and e.attr == "T":
            t += 1
            e = e.value
            continue
        if isinstance(e, ast.Call) and isinstance(e.func, ast.Attribute) \
                and e.func.attr == "swapaxes":
            t += 1
            e = e.func.value
            continue
        break
    if isinstance(e, ast.Attribute) and e.attr in ("matrix", "proj_data") \
            and isinstance(e.value, ast.Name) and e.value.id == p:
        return "transpose" if t % 2 == 1 else "matrix"
    if isinstance(e, ast.Call) and dotted(e.func) == "np.array":
        return "array"
    return None


W1_CLASSES = [(REP, "Representation"), (PROJ, "ProjectiveRepresentation"),
              (HYP, "HyperbolicRepresentation")]


def rule_w1(ctx):
    r = ctx.r
    r.rule("W1", "per representation class (MRO-resolved) wrap_func and "
                 "array_wrap_func construct the same class with the same "
                 "column_vectors flag, and unwrap_func transposes iff they "
                 "pass column_vectors=True")
    for rel, cname in W1_CLASSES:
        c = ctx.p.get_class(rel, cname)
        fs = {}
        for nm in ("wrap_func", "array_wrap_func", "unwrap_func"):
            f = ctx.p.find_method(c, nm)
            if f is None:
                raise AnalysisError(f"{cname}.{nm} not found in MRO")
            fs[nm] = f
            r.analysed(f)
        w = _wrap_info(fs["wrap_func"])
        a = _wrap_info(fs["array_wrap_func"])
        u = _unwrap_info(fs["unwrap_func"])
        inst = f"{cname}:wrap-parity"
        where = loc(fs["wrap_func"], fs["wrap_func"].node)
        if w is None or a is None or u is None:
            raise AnalysisError(f"{cname}: wrap/unwrap idiom not recognised "
                                f"(wrap={w}, array_wrap={a}, unwrap={u})")
        problems = []
        if w != a:
            problems.append(
                f"wrap_func builds {w} but array_wrap_func builds {a}: "
                "rep[word] and rep.elements([word]) disagree (one is the "
                "transpose of the other)")
        if w[0] == "identity":
            if u != "identity":
                problems.append("plain matrices are wrapped as-is but "
                                f"unwrapped with {u}")
        else:
            if w[1] is True and u != "transpose":
                problems.append(
                    "matrices are wrapped with column_vectors=True (stored "
                    f"transposed) but unwrap_func returns {u} without "
                    "transposing back: rep[g] = T stores the transpose")
            if w[1] in (False, None) and u == "transpose":
                problems.append(
                    "matrices are wrapped as row matrices but unwrap_func "
                    "transposes")
            if w[1] == "?":
                problems.append("column_vectors is not a literal")
        if problems:
            bad = fs["array_wrap_func"] if w != a else fs["unwrap_func"]
            r.violation("W1", f"{c.fq}|wrap-parity", loc(bad, bad.node),
                        f"{cname}.{bad.name}", "; ".join(problems),
                        instance=inst)
        else:
            r.ok("W1", inst, where, "",
                 f"wrap={w}, array_wrap={a}, unwrap={u}")
        # expected convention for the projective family: column vectors
        if cname != "Representation":
            if w[1] is True:
                r.ok("W1", f"{cname}:column-convention", where, "",
                     "numpy matrices act on column vectors "
                     "(column_vectors=True)")
            else:
                r.violation(
                    "W1", f"{c.fq}|column-convention", where,
                    f"{cname}.wrap_func",
                    "representation matrices are multiplied left-to-right "
                    "as column-vector matrices (word evaluation), but they "
                    f"are wrapped with column_vectors={w[1]}: rep[word] @ p "
                    "is not the word's matrix acting on the column vector",
                    instance=f"{cname}:column-convention")


# ---------------------------------------------------------------------------
# HAD: no elementwise product of two matrices on the way to a generator


MATRIX_FUNCS = {"symmetric_projection", "symmetric_inclusion", "utils.invert",
                "np.linalg.inv", "utils.identity", "np.identity",
                "self._word_value", "np.array", "np.concatenate",
                "np.tensordot", "np.zeros", "utils.zeros", "np.kron",
                "self.element", "np.eye"}


def _rep_names(f):
    """Local names bound to Representation objects in f."""
    names = set()
    for n in ast.walk(f.node):
        if isinstance(n, ast.Assign) and len(n.targets) == 1 \
                and isinstance(n.targets[0], ast.Name) \
                and isinstance(n.value, ast.Call):
            fn = dotted(n.value.func)
            if fn.endswith("Representation") or fn in (
                    "self.tensor_product", "self._compose", "self.compose",
                    "self.__class__", "self.symmetric_square", "self.dual"):
                names.add(n.targets[0].id)
    for p in f.params:
        if p in ("rep", "representation"):
            names.add(p)
    names.add("self")
    return names


def matrix_kind(e, defs, reps, depth=0):
    if isinstance(e, ast.Name):
        if e.id in defs and depth < 5:
            return matrix_kind(defs[e.id], defs, reps, depth + 1)
        return e.id in ("matrix", "mat", "image", "inv_image", "composed",
                        "inv_mat")
    if isinstance(e, ast.Subscript):
        b = e.value
        if isinstance(b, ast.Name) and b.id in reps:
            return True
        if isinstance(b, ast.Attribute) and b.attr == "generators":
            return True
        return matrix_kind(b, defs, reps, depth)
    if isinstance(e, ast.Call):
        n = dotted(e.func)
        if n in MATRIX_FUNCS:
            return True
        if isinstance(e.func, ast.Attribute) and e.func.attr in (
                "swapaxes", "astype", "copy", "transpose"):
            return matrix_kind(e.func.value, defs, reps, depth)
        return False
    if isinstance(e, ast.Attribute) and e.attr == "T":
        return matrix_kind(e.value, defs, reps, depth)
    if isinstance(e, ast.BinOp):
        if isinstance(e.op, ast.MatMult):
            return True
        return matrix_kind(e.left, defs, reps, depth) or \
            matrix_kind(e.right, defs, reps, depth)
    if isinstance(e, ast.UnaryOp):
        return matrix_kind(e.operand, defs, reps, depth)
    return False


def _generator_stores(f):
    """(stmt, value expr) for `X[g] = v` on a representation and
    `_set_generator(g, v)` calls."""
    reps = _rep_names(f)
    out = []
    for n in ast.walk(f.node):
        if isinstance(n, ast.Assign) and len(n.targets) == 1 \
                and isinstance(n.targets[0], ast.Subscript):
            b = n.targets[0].value
            if isinstance(b, ast.Name) and b.id in reps and b.id != "self":
                out.append((n, n.value))
            elif isinstance(b, ast.Attribute) and b.attr == "generators":
                out.append((n, n.value))
        if isinstance(n, ast.Call) and isinstance(n.func, ast.Attribute) \
                and n.func.attr in ("_set_generator", "set_generator") \
                and len(n.args) >= 2:
            out.append((n, n.args[1]))
    return reps, out


def rule_had(ctx, min_stores=5):
    r = ctx.r
    r.rule("HAD", "on the def-use path to a generator assignment "
                  "(rep[g] = .., _set_generator(g, ..)) no `*` combines two "
                  "matrix-kinded values: an elementwise (Hadamard) product "
                  "is not functorial")
    m = ctx.p.module_by_rel(REP)
    n_stores = 0
    for f in ctx.p.all_functions:
        if f.module is not m or f.parent is not None:
            continue
        reps, stores = _generator_stores(f)
        if not stores:
            continue
        defs = single_defs(f.node)
        r.analysed(f)
        for st, val in stores:
            n_stores += 1
            bad = None
            seen = set()

            def scan(e, depth=0):
                nonlocal bad
                for n in ast.walk(e):
                    if isinstance(n, ast.BinOp) and isinstance(n.op, ast.Mult):
                        if matrix_kind(n.left, defs, reps) and \
                                matrix_kind(n.right, defs, reps):
                            bad = bad or n
                    if isinstance(n, ast.Name) and n.id in defs \
                            and depth < 5 and n.id not in seen:
                        seen.add(n.id)
                        scan(defs[n.id], depth + 1)
            scan(val)
            con = norm_stmt(st) if isinstance(st, ast.stmt) else dotted(st)
            inst = f"{f.qualname}:{con[:80]}"
            if bad is None:
                r.ok("HAD", inst, loc(f, st), con[:140],
                     "generator value is built without an elementwise "
                     "product of matrices")
            else:
                r.violation(
                    "HAD", f"{f.fq}|{con}", loc(f, bad), con[:160],
                    f"`{dotted(bad)}` multiplies two matrices elementwise "
                    "(`*`) where the composite map needs the matrix product "
                    "(`@`): the result is not a homomorphic image (and the "
                    "shapes do not even broadcast)", instance=inst)
    r.require_count("HAD", "generator assignments in representation.py",
                    n_stores, min_stores)


# ---------------------------------------------------------------------------
# inverse store, compose flag agreement, word fold, conjugation


def rule_rep_structure(ctx):
    r = ctx.r
    r.rule("INV", "_set_generator stores utils.invert(matrix) under the "
                  "inverse letter when compute_inverse is true; _compose "
                  "iterates over all generator keys whenever inverses are "
                  "not recomputed and passes the same flag on")
    r.rule("FOLD", "_word_value is a left-to-right fold "
                   "acc = acc @ generators[letter] from the identity")
    r.rule("CONJ", "_conjugate composes with inv_mat @ M @ mat where "
                   "inv_mat defaults to utils.invert(mat)")
    # --- inverse store
    f = ctx.p.get_function(REP, "Representation._set_generator")
    r.analysed(f)
    found = None
    for n in ast.walk(f.node):
        if isinstance(n, ast.If) and eval_test(
                n.test, {"compute_inverse": True}) is True:
            for s in n.body:
                if isinstance(s, ast.Assign) and isinstance(
                        s.targets[0], ast.Subscript):
                    t = s.targets[0]
                    key = dotted(t.slice)
                    val = s.value
                    if dotted(t.value) == "self.generators":
                        found = (s, key, val)
    if found is None:
        r.violation("INV", f"{f.fq}|missing", loc(f, f.node),
                    "_set_generator",
                    "no store of the inverse under `if compute_inverse:` -- "
                    "an inverse letter has no image", instance="_set_generator")
    else:
        s, key, val = found
        ops = ops_chain(val, f.params[2])
        key_ok = "invert_gen(" + f.params[1] + ")" in key.replace(" ", "")
        if ops == ["inv"] and key_ok:
            r.ok("INV", "_set_generator:inverse", loc(f, s), norm_stmt(s),
                 "inverse letter -> inverse matrix")
        else:
            r.violation("INV", f"{f.fq}|inverse-store", loc(f, s),
                        norm_stmt(s),
                        f"the inverse letter is stored as {dotted(val)} under "
                        f"key {key}: an inverse letter must map to "
                        "utils.invert(matrix) under invert_gen(generator)",
                        instance="_set_generator:inverse")
    # primary store
    prim = [n for n in ast.walk(f.node) if isinstance(n, ast.Assign)
            and isinstance(n.targets[0], ast.Subscript)
            and dotted(n.targets[0].value) == "self.generators"
            and dotted(n.targets[0].slice) == f.params[1]]
    if prim and dotted(prim[0].value) == f.params[2]:
        r.ok("INV", "_set_generator:primary", loc(f, prim[0]),
             norm_stmt(prim[0]), "generator -> matrix")
    else:
        r.violation("INV", f"{f.fq}|primary-store", loc(f, f.node),
                    "_set_generator",
                    "self.generators[generator] = matrix not found",
                    instance="_set_generator:primary")
    # --- _compose flag agreement
    g = ctx.p.get_function(REP, "Representation._compose")
    r.analysed(g)
    flag = "compute_inverses"
    sel = None
    for n in ast.walk(g.node):
        if isinstance(n, ast.If) and eval_test(n.test, {flag: True}) is True \
                and eval_test(n.test, {flag: False}) is False:
            a_true = [dotted(s.value) for s in n.body
                      if isinstance(s, ast.Assign)]
            a_false = [dotted(s.value) for s in n.orelse
                       if isinstance(s, ast.Assign)]
            sel = (n, a_true, a_false)
    calls = [n for n in ast.walk(g.node) if isinstance(n, ast.Call)
             and dotted(n.func).endswith("._set_generator")]
    if sel is None or not calls:
        raise AnalysisError("Representation._compose: iterator selection or "
                            "_set_generator call not found")
    n, a_true, a_false = sel
    all_keys = any("generators" in x and "asym" not in x for x in a_false)
    kw = None
    for k in calls[0].keywords:
        if k.arg == "compute_inverse":
            kw = dotted(k.value)
    if all_keys and kw == flag:
        r.ok("INV", "_compose:flag-agreement", loc(g, n), "",
             "all keys are iterated when inverses are not recomputed; the "
             "same flag reaches _set_generator")
    else:
        why = []
        if not all_keys:
            why.append(f"with {flag}=False the loop iterates {a_false} "
                       "(not every generator key): inverse letters get no "
                       "image in the composed representation")
        if kw != flag:
            why.append(f"_set_generator receives compute_inverse={kw}, not "
                       f"{flag}")
        r.violation("INV", f"{g.fq}|flag-agreement", loc(g, n),
                    "_compose", "; ".join(why),
                    instance="_compose:flag-agreement")
    # hom applied to the image of g
    hom_calls = [c for c in ast.walk(g.node) if isinstance(c, ast.Call)
                 and dotted(c.func) == "hom"]
    gdefs = single_defs(g.node)

    def own_image(e, depth=0):
        """e is self.generators[<loop variable>] (possibly via a local)"""
        if isinstance(e, ast.Name) and e.id in gdefs and depth < 3:
            return own_image(gdefs[e.id], depth + 1)
        loopvars = {dotted(lp.target) for lp in ast.walk(g.node)
                    if isinstance(lp, ast.For)}
        return isinstance(e, ast.Subscript) and dotted(e.value) in (
            "self.generators", "self") and dotted(e.slice) in loopvars
    if hom_calls and all(c.args and own_image(c.args[0])
                         for c in hom_calls):
        r.ok("INV", "_compose:hom(image)", loc(g, hom_calls[0]),
             dotted(hom_calls[0]), "hom is applied to the generator's image")
    elif hom_calls:
        r.violation("INV", f"{g.fq}|hom-arg", loc(g, hom_calls[0]),
                    dotted(hom_calls[0]),
                    "hom is not applied to the generator's own image",
                    instance="_compose:hom(image)")
    # --- word fold
    h = ctx.p.get_function(REP, "Representation._word_value")
    r.analysed(h)
    loops = [n for n in ast.walk(h.node) if isinstance(n, ast.For)]
    ok = False
    unjudged = None
    site = h.node
    why = "no fold loop found"

    def yields_generator_matrices(it):
        """the iterable hands out self.generators[letter] per letter"""
        if isinstance(it, ast.Call) and dotted(it.func) == "map" \
                and len(it.args) == 2 and dotted(it.args[0]) in (
                    "self.generators.__getitem__", "self.generators.get"):
            return True
        if isinstance(it, (ast.GeneratorExp, ast.ListComp)) \
                and len(it.generators) == 1 and not it.generators[0].ifs:
            v = dotted(it.generators[0].target)
            return dotted(it.elt) == f"self.generators[{v}]"
        return False
    for lp in loops:
        lv = dotted(lp.target)
        local = {}
        for s in lp.body:
            if isinstance(s, ast.Assign) and isinstance(s.targets[0], ast.Name) \
                    and not (isinstance(s.value, ast.BinOp)
                             and isinstance(s.value.op, ast.MatMult)):
                local[s.targets[0].id] = s.value
        it_defs = [n.value for n in h.node.body if isinstance(n, ast.Assign)
                   and dotted(n.targets[0]) == dotted(lp.iter)]
        iters = [lp.iter] + it_defs

        def is_letter_matrix(e):
            if isinstance(e, ast.Name) and e.id in local:
                e = local[e.id]
            if dotted(e) == f"self.generators[{lv}]":
                return True
            return dotted(e) == lv and any(yields_generator_matrices(i)
                                           for i in iters)
        for s in lp.body:
            if isinstance(s, (ast.Assign, ast.AugAssign)) \
                    and isinstance(s.targets[0] if isinstance(s, ast.Assign)
                                   else s.target, ast.Name):
                if isinstance(s, ast.AugAssign):
                    if not isinstance(s.op, ast.MatMult):
                        continue
                    acc = s.target.id
                    L, R = s.target, s.value
                    val = f"{acc} @ {dotted(R)}"
                elif isinstance(s.value, ast.BinOp) \
                        and isinstance(s.value.op, ast.MatMult):
                    acc = s.targets[0].id
                    L, R = s.value.left, s.value.right
                    val = dotted(s.value)
                else:
                    continue
                site = s
                if dotted(L) == acc and is_letter_matrix(R):
                    ok = True
                elif dotted(R) == acc and dotted(L) != acc:
                    why = (f"the fold is `{val}`: letters are "
                           "multiplied on the LEFT, so rho(uv) = rho(v)rho(u) "
                           "(an anti-homomorphism)")
                elif dotted(L) == acc and (
                        ops_chain(R, "self.generators") or (
                            isinstance(R, (ast.Call, ast.Attribute))
                            and f"self.generators[{lv}]" in dotted(R))):
                    why = (f"the fold step `{val}` does not multiply by the "
                           "generator matrix itself")
                else:
                    unjudged = (f"the fold step `{val}` is not in a "
                                "recognised form (acc @ generators[letter])")
    init = [n for n in h.node.body if isinstance(n, ast.Assign)
            and isinstance(n.value, ast.Call)
            and dotted(n.value.func) in ("utils.identity", "np.identity",
                                         "np.eye")]
    if ok and init:
        r.ok("FOLD", "_word_value", loc(h, site), norm_stmt(site),
             "left-to-right product from the identity")
    elif unjudged and not ok and why == "no fold loop found":
        r.note("FOLD", loc(h, site), norm_stmt(site)[:120], unjudged +
               " (not judged)")
        r.gap("rule_inverse_pairing", "FOLD: " + unjudged, fatal=False)
    else:
        if ok and not init:
            why = "the fold does not start from the identity matrix"
        r.violation("FOLD", f"{h.fq}|fold", loc(h, site),
                    norm_stmt(site)[:120] if isinstance(site, ast.stmt)
                    else "_word_value", why, instance="_word_value")
    # --- conjugation
    c = ctx.p.get_function(REP, "Representation._conjugate")
    r.analysed(c)
    lam = [n for n in ast.walk(c.node) if isinstance(n, ast.Lambda)]
    dflt = [n for n in ast.walk(c.node) if isinstance(n, ast.Assign)
            and dotted(n.targets[0]) == "inv_mat"]
    if lam:
        parts = []

        def flat(x):
            if isinstance(x, ast.BinOp) and isinstance(x.op, ast.MatMult):
                flat(x.left)
                flat(x.right)
            else:
                parts.append(dotted(x))
        flat(lam[0].body)
        p0 = lam[0].args.args[0].arg
        dfl_ok = bool(dflt) and ops_chain(dflt[0].value, "mat") == ["inv"]
        if len(parts) == 3 and parts[1] == p0 and \
                {parts[0], parts[2]} == {"mat", "inv_mat"} and dfl_ok:
            r.ok("CONJ", "_conjugate", loc(c, lam[0]), dotted(lam[0]),
                 "M -> inv_mat @ M @ mat with inv_mat = invert(mat)")
        else:
            r.violation("CONJ", f"{c.fq}|conj", loc(c, lam[0]),
                        dotted(lam[0]),
                        f"conjugation is {parts} (default inverse ok: "
                        f"{dfl_ok}); the outer factors must be mat and its "
                        "inverse for the result to be a homomorphism",
                        instance="_conjugate")
    else:
        r.note("CONJ", loc(c, c.node), "_conjugate", "idiom not recognised")
    # --- dual
    d = ctx.p.get_function(REP, "Representation.dual")
    r.analysed(d)
    calls = [n for n in ast.walk(d.node) if isinstance(n, ast.Call)
             and isinstance(n.func, ast.Attribute)
             and n.func.attr in ("_compose", "compose")]
    if calls:
        check_inverse_transpose(r, d, calls[0], "Representation.dual", "DU")


WORDS = "geometry_tools/utils/words.py"


def rule_zs1(ctx):
    r = ctx.r
    r.rule("ZS1", "group-ring elements (word -> coefficient maps) are added "
                  "coefficient-wise: utils.words never merges two of them "
                  "with dict.update / {**a, **b} / a | b, which overwrite "
                  "the coefficient of a word present in both")
    m = ctx.p.module_by_rel(WORDS)
    f = ctx.p.get_function(WORDS, "zmod_sum")
    r.analysed(f)
    bad = []
    for g in m.functions.values():
        for n in ast.walk(g.node):
            if isinstance(n, ast.Call) and isinstance(n.func, ast.Attribute) \
                    and n.func.attr == "update":
                bad.append((g, n))
            if isinstance(n, ast.Dict) and any(k is None for k in n.keys) \
                    and len(n.keys) >= 2:
                bad.append((g, n))
            if isinstance(n, ast.BinOp) and isinstance(n.op, ast.BitOr) \
                    and g.name.startswith("zmod"):
                bad.append((g, n))
    adds = [n for n in ast.walk(f.node) if isinstance(n, ast.AugAssign)
            and isinstance(n.op, ast.Add) and isinstance(n.target, ast.Subscript)]
    if bad:
        g, n = bad[0]
        r.violation("ZS1", f"{g.fq}|{dotted(n)[:80]}", loc(g, n),
                    dotted(n)[:140],
                    "coefficient maps are merged by overwriting: a word "
                    "that occurs in both summands keeps only the second "
                    "coefficient, so the Fox derivative of a word that is "
                    "not freely reduced (aA, aAabAB) is wrong and the "
                    "fundamental formula fails", instance=g.qualname)
    elif adds:
        r.ok("ZS1", "zmod_sum", loc(f, adds[0]), norm_stmt(adds[0]),
             "coefficients are accumulated with +=")
    else:
        r.ok("ZS1", "zmod_sum", loc(f, f.node), "",
             "no overwriting merge of coefficient maps")


# ---------------------------------------------------------------------------
def _symmetric_in_first_two(fnode):
    """True when the function orders its first two parameters before use:
    `if i > j: i, j = j, i` (any comparison direction) or min/max/sorted."""
    a = [x.arg for x in fnode.args.args[:2]]
    if len(a) < 2:
        return False
    for n in ast.walk(fnode):
        if isinstance(n, ast.If) and isinstance(n.test, ast.Compare) \
                and len(n.test.ops) == 1 \
                and isinstance(n.test.ops[0], (ast.Gt, ast.Lt, ast.GtE,
                                               ast.LtE)):
            names = {dotted(n.test.left), dotted(n.test.comparators[0])}
            if names != set(a):
                continue
            for st in n.body + n.orelse:
                if isinstance(st, ast.Assign) \
                        and isinstance(st.targets[0], ast.Tuple) \
                        and isinstance(st.value, ast.Tuple) \
                        and [dotted(x) for x in st.targets[0].elts] == \
                        [dotted(x) for x in reversed(st.value.elts)] \
                        and {dotted(x) for x in st.value.elts} == set(a):
                    return True
    # `lo, hi = (j, i) if i > j else (i, j)` (any direction / either arm)
    for n in ast.walk(fnode):
        if isinstance(n, ast.Assign) and isinstance(n.targets[0], ast.Tuple) \
                and len(n.targets[0].elts) == 2 \
                and isinstance(n.value, ast.IfExp) \
                and isinstance(n.value.test, ast.Compare) \
                and len(n.value.test.ops) == 1 \
                and isinstance(n.value.test.ops[0], (ast.Gt, ast.Lt, ast.GtE,
                                                     ast.LtE)) \
                and {dotted(n.value.test.left),
                     dotted(n.value.test.comparators[0])} == set(a):
            arms = [n.value.body, n.value.orelse]
            if all(isinstance(x, ast.Tuple) and len(x.elts) == 2
                   for x in arms) and \
                    [dotted(x) for x in arms[0].elts] == \
                    [dotted(x) for x in reversed(arms[1].elts)] and \
                    {dotted(x) for x in arms[0].elts} == set(a):
                return True
    lo = hi = False
    for n in ast.walk(fnode):
        if isinstance(n, ast.Call) and dotted(n.func) in (
                "min", "max", "sorted", "np.minimum", "np.maximum") \
                and {dotted(x) for x in (n.args[0].elts
                                         if len(n.args) == 1 and isinstance(
                                             n.args[0], (ast.Tuple, ast.List))
                                         else n.args)} == set(a):
            if dotted(n.func) == "sorted":
                return True
            lo |= dotted(n.func) in ("min", "np.minimum")
            hi |= dotted(n.func) in ("max", "np.maximum")
    return lo and hi


def rule_sym1(ctx):
    r = ctx.r
    r.rule("SYM1", "sym_index(i, j, n) names the monomial e_i e_j = e_j e_i: "
                   "either it orders its first two arguments itself, or "
                   "every call site passes them ordered (second index "
                   "ranging from the first upward)")
    callee = ctx.p.get_function(REP, "sym_index")
    r.analysed(callee)
    sym = _symmetric_in_first_two(callee.node)
    if sym:
        r.ok("SYM1", "sym_index", loc(callee, callee.node), "",
             "orders (i, j) before computing the index")
    # an ordering construct the rule does not classify: no verdict
    a2 = {x.arg for x in callee.node.args.args[:2]}
    unclear = False
    if not sym:
        for n in ast.walk(callee.node):
            names = {x.id for x in ast.walk(n) if isinstance(x, ast.Name)}
            if isinstance(n, ast.Compare) and a2 <= names:
                unclear = True
            if isinstance(n, ast.Call) and dotted(n.func) in (
                    "min", "max", "sorted", "abs", "np.minimum",
                    "np.maximum", "np.sort", "divmod") and a2 <= names:
                unclear = True
        if unclear:
            r.note("SYM1", loc(callee, callee.node), "sym_index",
                   "compares / orders its two indices in a form the rule "
                   "does not classify (not judged)")
    sites = 0
    for f in ctx.p.all_functions:
        if f.module.rel != REP:
            continue
        for c in ast.walk(f.node):
            if not (isinstance(c, ast.Call)
                    and dotted(c.func) == "sym_index" and len(c.args) >= 2):
                continue
            sites += 1
            r.analysed(f)
            if sym or unclear:
                continue
            a, b = c.args[0], c.args[1]
            ordered = ast.dump(a) == ast.dump(b)
            if not ordered and isinstance(b, ast.Name):
                for lp in ast.walk(f.node):
                    if isinstance(lp, ast.For) \
                            and isinstance(lp.target, ast.Name) \
                            and lp.target.id == b.id \
                            and isinstance(lp.iter, ast.Call) \
                            and dotted(lp.iter.func) == "range" \
                            and len(lp.iter.args) >= 2:
                        st = lp.iter.args[0]
                        base = st.left if (isinstance(st, ast.BinOp)
                                           and isinstance(st.op, ast.Add)) \
                            else st
                        if ast.dump(base) == ast.dump(a):
                            ordered = True
            if ordered:
                r.ok("SYM1", f"{f.qualname}:call", loc(f, c),
                     dotted(c)[:80], "arguments ordered at the call site")
            else:
                r.violation(
                    "SYM1", f"{f.fq}|unordered-call", loc(f, c),
                    dotted(c)[:100],
                    "sym_index no longer orders (i, j) and this call "
                    f"passes `{dotted(a)}`, `{dotted(b)}` in arbitrary "
                    "order: for i > j the row index is wrong (negative or "
                    "colliding), so symmetric_projection is not a left "
                    "inverse of symmetric_inclusion and symmetric_square() "
                    "is not Sym^2 of the representation for n >= 3",
                    instance=f"{f.qualname}:call")
    if sites < 2:
        raise AnalysisError("SYM1: fewer than 2 sym_index call sites")


# ---------------------------------------------------------------------------
def rule_wp1(ctx):
    r = ctx.r
    r.rule("WP1", "how a word is split into letters does not depend on "
                  "which generators exist: parse_word, _word_value and the "
                  "label evaluation of _automaton_accepted never test "
                  "`<word / label> in self.generators` to decide whether to "
                  "parse. A string that spells both a generator name and a "
                  "product of shorter names ('ab' next to 'a', 'b') must "
                  "mean the product, or rho(uv) != rho(u) rho(v)")
    sites = 0
    for q in ("Representation.parse_word", "Representation._word_value",
              "Representation._automaton_accepted",
              "Representation.__getitem__", "Representation.element"):
        try:
            f = ctx.p.get_function(REP, q)
        except AnalysisError:
            continue
        r.analysed(f)
        sites += 1
        bad = None
        for n in ast.walk(f.node):
            if isinstance(n, ast.Compare) and any(
                    isinstance(o, (ast.In, ast.NotIn)) for o in n.ops):
                right = n.comparators[0]
                txt = dotted(right)
                if txt in ("self.generators", "self.generators.keys()",
                           "self._generators"):
                    left = n.left
                    # `letter in self.generators` inside the per-letter loop
                    # of an evaluator is a lookup guard, not a parsing
                    # decision: it is a parsing decision when the tested
                    # value is the whole word / label parameter
                    # in parse_word / _word_value the tested value is the
                    # word parameter; _automaton_accepted never iterates
                    # over letters, so any name tested there is a label
                    if isinstance(left, ast.Name) and (
                            left.id in f.params
                            or q.endswith("_automaton_accepted")):
                        bad = n
        if bad is not None:
            r.violation(
                "WP1", f"{f.fq}|{dotted(bad)[:60]}", loc(f, bad),
                dotted(bad)[:120],
                f"`{dotted(bad)}` decides whether the string is parsed: with "
                "generators 'a', 'b' and a third one named 'ab', rep['ab'] "
                "(and every automaton label 'ab') is evaluated as that "
                "generator instead of rho(a) rho(b), so the homomorphism "
                "law fails for colliding names",
                instance=f"{q}:parse-independent")
        else:
            r.ok("WP1", f"{q}:parse-independent", loc(f, f.node), "",
                 "no generator-table test on the whole word")
    if sites < 2:
        raise AnalysisError("WP1: parsing functions have vanished")
