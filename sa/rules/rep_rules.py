"""Rules over representation.py / coxeter.py: inverse-transpose composition,
HAD (no Hadamard product of matrices), inverse store, word fold, W1."""
import ast

from ..project import AnalysisError, ClassInfo, loc, norm_stmt
from ..flow import dotted, eval_test
from ..norm import single_defs
from ..rules.common import const_value

REP = "geometry_tools/representation.py"
COX = "geometry_tools/coxeter.py"
PROJ = "geometry_tools/projective.py"
HYP = "geometry_tools/hyperbolic.py"


def ops_chain(e, param):
    """Peel inverse / transpose operations down to `param`.
    -> list of 'inv'/'T' or None if the expression is something else."""
    ops = []
    while True:
        if isinstance(e, ast.Name):
            return ops if e.id == param else None
        if isinstance(e, ast.Attribute) and e.attr == "T":
            ops.append("T")
            e = e.value
            continue
        if isinstance(e, ast.Call):
            n = dotted(e.func)
            if n in ("utils.invert", "np.linalg.inv", "invert",
                     "numpy.linalg.inv") and len(e.args) == 1:
                ops.append("inv")
                e = e.args[0]
                continue
            if n in ("np.transpose", "np.swapaxes") and e.args:
                ops.append("T")
                e = e.args[0]
                continue
            if isinstance(e.func, ast.Attribute) and e.func.attr in (
                    "swapaxes", "transpose"):
                if e.func.attr == "swapaxes":
                    vals = sorted(const_value(a, 99) for a in e.args)
                    if vals != [-2, -1]:
                        return None
                ops.append("T")
                e = e.func.value
                continue
        return None


def check_inverse_transpose(r, f, call, inst, rule="DU"):
    """call: X.compose(lambda ..) / self._compose(lambda ..)"""
    lam = None
    for a in list(call.args) + [k.value for k in call.keywords]:
        if isinstance(a, ast.Lambda):
            lam = a
    if lam is None or len(lam.args.args) != 1:
        r.violation(rule, f"{f.fq}|{inst}|shape", loc(f, call),
                    dotted(call)[:140],
                    "the dual is not built by composing with a "
                    "one-argument lambda; inverse-transpose not recognisable",
                    instance=inst)
        return
    ops = ops_chain(lam.body, lam.args.args[0].arg)
    if ops is not None and sorted(ops) == ["T", "inv"]:
        r.ok(rule, inst, loc(f, lam), dotted(lam),
             "composes each generator with inverse and transpose, once each")
    else:
        r.violation(
            rule, f"{f.fq}|{inst}|ops", loc(f, lam), dotted(lam)[:140],
            f"the composed map applies {ops if ops is not None else 'an unrecognised expression'} "
            "instead of exactly one inverse and one transpose: the result "
            "is not the dual (contragredient) representation",
            instance=inst)


def rule_dual(ctx):
    r = ctx.r
    r.rule("DU", "the canonical (dual) representation is the geometric one "
                 "composed with exactly one inverse and one transpose, in "
                 "either order; hyperbolic_rep requests diagonalize=True")
    f = ctx.p.get_function(COX, "CoxeterGroup.canonical_representation")
    r.analysed(f)
    calls = [n for n in ast.walk(f.node) if isinstance(n, ast.Call)
             and isinstance(n.func, ast.Attribute)
             and n.func.attr in ("compose", "_compose")]
    if len(calls) != 1:
        r.violation("DU", f"{f.fq}|compose", loc(f, f.node),
                    "canonical_representation",
                    "does not compose a representation with a dualising map",
                    instance="canonical_representation")
    else:
        c = calls[0]
        base = c.func.value
        if isinstance(base, ast.Call) and dotted(base.func) == \
                "self.geometric_representation":
            r.ok("DU", "canonical_representation:base", loc(f, base),
                 dotted(base)[:80], "built from the geometric representation")
        else:
            r.violation("DU", f"{f.fq}|base", loc(f, c), dotted(c)[:120],
                        "the canonical representation is not derived from "
                        "self.geometric_representation(..)",
                        instance="canonical_representation:base")
        check_inverse_transpose(r, f, c, "canonical_representation:dual")
    g = ctx.p.get_function(COX, "CoxeterGroup.hyperbolic_rep")
    r.analysed(g)
    ok = False
    site = g.node
    for n in ast.walk(g.node):
        if isinstance(n, ast.Call) and dotted(n.func) == \
                "self.geometric_representation":
            site = n
            for k in n.keywords:
                if k.arg == "diagonalize" and const_value(k.value) is True:
                    ok = True
    if ok:
        r.ok("DU", "hyperbolic_rep:diagonalize", loc(g, site),
             dotted(site)[:100], "requests the diagonalised form")
    else:
        r.violation("DU", f"{g.fq}|diagonalize", loc(g, site),
                    dotted(site)[:140],
                    "hyperbolic_rep does not request diagonalize=True: the "
                    "matrices preserve the cosine form, not the Minkowski "
                    "form the Isometry wrapper assumes",
                    instance="hyperbolic_rep:diagonalize")
    h = ctx.p.get_function(COX, "CoxeterGroup.cartan_representation")
    r.analysed(h)
    # diagonalising conjugation: Winv @ mat @ W
    lam = [n for n in ast.walk(h.node) if isinstance(n, ast.Lambda)]
    good = False
    for L in lam:
        b = L.body
        if isinstance(b, ast.BinOp) and isinstance(b.op, ast.MatMult):
            parts = []

            def flat(x):
                if isinstance(x, ast.BinOp) and isinstance(x.op, ast.MatMult):
                    flat(x.left)
                    flat(x.right)
                else:
                    parts.append(dotted(x))
            flat(b)
            if len(parts) == 3 and parts[1] == L.args.args[0].arg \
                    and {parts[0], parts[2]} == {"W", "Winv"}:
                good = parts
    if good:
        if good[0] == "Winv":
            r.ok("DU", "cartan_representation:conjugation", loc(h, lam[0]),
                 dotted(lam[0]), "conjugates as Winv @ mat @ W (W^T B W = D)")
        else:
            r.violation("DU", f"{h.fq}|conjugation", loc(h, lam[0]),
                        dotted(lam[0]),
                        "diagonalising conjugation is W @ mat @ Winv; with "
                        "W^T B W = D the form-preserving conjugate is "
                        "Winv @ mat @ W", instance="cartan_representation")
    else:
        r.note("DU", loc(h, h.node), "cartan_representation",
               "diagonalising conjugation idiom not recognised; not judged")


# ---------------------------------------------------------------------------
# W1 wrap parity


def _wrap_info(f):
    """-> (class name constructed, column_vectors literal) or 'identity'."""
    rets = [n for n in ast.walk(f.node) if isinstance(n, ast.Return)]
    if len(rets) != 1:
        return None
    v = rets[0].value
    if isinstance(v, ast.Name) and v.id == f.params[0]:
        return ("identity", None)
    if isinstance(v, ast.Call):
        cv = False
        for k in v.keywords:
            if k.arg == "column_vectors":
                cv = const_value(k.value, "?")
        if len(v.args) > 1:
            cv = const_value(v.args[1], "?")
        return (dotted(v.func), cv)
    return None


def _unwrap_info(f):
    rets = [n for n in ast.walk(f.node) if isinstance(n, ast.Return)]
    if len(rets) != 1:
        return None
    v = rets[0].value
    p = f.params[0]
    if isinstance(v, ast.Name) and v.id == p:
        return "identity"
    # peel transposes
    t = 0
    e = v
    while True:
        if isinstance(e, ast.Attribute) and e.attr == "T":
            t += 1
            e = e.value
            continue
        if isinstance(e, ast.Call) and isinstance(e.func, ast.Attribute) \
                and e.func.attr == "swapaxes":
            t += 1
            e = e.func.value
            continue
        break
    if isinstance(e, ast.Attribute) and e.attr in ("matrix", "proj_data") \
            and isinstance(e.value, ast.Name) and e.value.id == p:
        return "transpose" if t % 2 == 1 else "matrix"
    if isinstance(e, ast.Call) and dotted(e.func) == "np.array":
        return "array"
    return None


W1_CLASSES = [(REP, "Representation"), (PROJ, "ProjectiveRepresentation"),
              (HYP, "HyperbolicRepresentation")]


def rule_w1(ctx):
    r = ctx.r
    r.rule("W1", "per representation class (MRO-resolved) wrap_func and "
                 "array_wrap_func construct the same class with the same "
                 "column_vectors flag, and unwrap_func transposes iff they "
                 "pass column_vectors=True")
    for rel, cname in W1_CLASSES:
        c = ctx.p.get_class(rel, cname)
        fs = {}
        for nm in ("wrap_func", "array_wrap_func", "unwrap_func"):
            f = ctx.p.find_method(c, nm)
            if f is None:
                raise AnalysisError(f"{cname}.{nm} not found in MRO")
            fs[nm] = f
            r.analysed(f)
        w = _wrap_info(fs["wrap_func"])
        a = _wrap_info(fs["array_wrap_func"])
        u = _unwrap_info(fs["unwrap_func"])
        inst = f"{cname}:wrap-parity"
        where = loc(fs["wrap_func"], fs["wrap_func"].node)
        if w is None or a is None or u is None:
            raise AnalysisError(f"{cname}: wrap/unwrap idiom not recognised "
                                f"(wrap={w}, array_wrap={a}, unwrap={u})")
        problems = []
        if w != a:
            problems.append(
                f"wrap_func builds {w} but array_wrap_func builds {a}: "
                "rep[word] and rep.elements([word]) disagree (one is the "
                "transpose of the other)")
        if w[0] == "identity":
            if u != "identity":
                problems.append("plain matrices are wrapped as-is but "
                                f"unwrapped with {u}")
        else:
            if w[1] is True and u != "transpose":
                problems.append(
                    "matrices are wrapped with column_vectors=True (stored "
                    f"transposed) but unwrap_func returns {u} without "
                    "transposing back: rep[g] = T stores the transpose")
            if w[1] in (False, None) and u == "transpose":
                problems.append(
                    "matrices are wrapped as row matrices but unwrap_func "
                    "transposes")
            if w[1] == "?":
                problems.append("column_vectors is not a literal")
        if problems:
            bad = fs["array_wrap_func"] if w != a else fs["unwrap_func"]
            r.violation("W1", f"{c.fq}|wrap-parity", loc(bad, bad.node),
                        f"{cname}.{bad.name}", "; ".join(problems),
                        instance=inst)
        else:
            r.ok("W1", inst, where, "",
                 f"wrap={w}, array_wrap={a}, unwrap={u}")
        # expected convention for the projective family: column vectors
        if cname != "Representation":
            if w[1] is True:
                r.ok("W1", f"{cname}:column-convention", where, "",
                     "numpy matrices act on column vectors "
                     "(column_vectors=True)")
            else:
                r.violation(
                    "W1", f"{c.fq}|column-convention", where,
                    f"{cname}.wrap_func",
                    "representation matrices are multiplied left-to-right "
                    "as column-vector matrices (word evaluation), but they "
                    f"are wrapped with column_vectors={w[1]}: rep[word] @ p "
                    "is not the word's matrix acting on the column vector",
                    instance=f"{cname}:column-convention")
