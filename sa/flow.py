"""P4 flag specialiser + P6 alias-root interpreter (intraprocedural).

Roots (strings):
  'self'            the receiver object or data reachable from it
  'param:<name>'    a parameter object or data reachable from it
  'shallow(<R>)'    a fresh object whose attributes alias the data of R
  'fresh'           a fresh object / array nobody else holds
  'unknown'
"""
import ast

from .project import norm_stmt

# calls that return data not aliasing their arguments
COPYING_FUNCS = {
    "list", "dict", "set", "tuple", "sorted", "str", "int", "float", "bool",
    "len", "range", "enumerate", "zip", "deque", "defaultdict", "frozenset",
    "copy.deepcopy", "deepcopy",
    "np.array", "np.copy", "np.stack", "np.concatenate", "np.zeros",
    "np.ones", "np.zeros_like", "np.ones_like", "np.full", "np.identity",
    "np.eye", "np.roll", "np.flip_copy", "np.tile", "np.block", "np.vstack",
    "np.hstack", "np.sum", "np.abs", "np.sqrt", "np.cos", "np.sin",
    "np.arccosh", "np.arccos", "np.exp", "np.sign", "np.where", "np.delete",
    "np.take_along_axis", "np.argsort", "np.argmin", "np.argmax",
    "np.linalg.inv", "np.linalg.eig", "np.linalg.norm", "np.linalg.qr",
    "np.linalg.det", "np.linalg.svd", "np.linalg.eigh", "np.isclose",
    "np.all", "np.any", "np.conjugate", "np.arctan2", "np.arctan",
    "np.tan", "np.maximum", "np.minimum", "np.clip", "np.logical_and",
    "np.unique", "np.nonzero", "np.count_nonzero", "np.diag", "np.arange",
    "np.tensordot", "np.power", "np.min", "np.max", "np.isnan", "np.sort",
    "np.emath.sqrt", "np.arcsinh", "np.arcsin", "np.sinh",
}
COPYING_METHODS = {"copy", "astype", "tolist", "sum", "any", "all", "keys",
                   "items", "values", "format", "join", "split", "lower",
                   "upper", "flatten", "nonzero", "item", "popleft", "pop"}
# calls whose result aliases (is a view of) the first argument / receiver
VIEW_FUNCS = {"np.expand_dims", "np.squeeze", "np.reshape", "np.swapaxes",
              "np.moveaxis", "np.real", "np.imag", "np.atleast_1d",
              "np.asarray", "np.broadcast_to", "np.flip", "np.transpose",
              "np.ravel"}
VIEW_METHODS = {"swapaxes", "reshape", "squeeze", "view", "transpose",
                "ravel", "get", "setdefault"}
VIEW_ATTRS = {"T", "real", "imag", "flat"}
MUTATING_METHODS = {"append", "extend", "insert", "pop", "popitem", "remove",
                    "clear", "sort", "reverse", "update", "setdefault",
                    "add", "discard", "fill", "put", "itemset", "resize",
                    "appendleft", "popleft"}
INPLACE_NP = {"np.put_along_axis": 0, "np.putmask": 0, "np.place": 0,
              "np.copyto": 0, "np.fill_diagonal": 0}


def dotted(node):
    try:
        return ast.unparse(node)
    except Exception:
        return "?"


# ---------------------------------------------------------------------------
# flag folding


def eval_test(test, flags):
    """Fold a test under `flags` (name -> True/False/'none'/'notnone').
    Returns True/False or None when not decidable."""
    if isinstance(test, ast.Constant):
        return bool(test.value)
    if isinstance(test, ast.Name) and test.id in flags:
        v = flags[test.id]
        if v in (True, False):
            return v
        if v == "none":
            return False
        return None
    if isinstance(test, ast.UnaryOp) and isinstance(test.op, ast.Not):
        r = eval_test(test.operand, flags)
        return None if r is None else (not r)
    if isinstance(test, ast.BoolOp):
        vals = [eval_test(v, flags) for v in test.values]
        if isinstance(test.op, ast.And):
            if any(v is False for v in vals):
                return False
            if all(v is True for v in vals):
                return True
            return None
        if any(v is True for v in vals):
            return True
        if all(v is False for v in vals):
            return False
        return None
    if isinstance(test, ast.Compare) and len(test.ops) == 1 \
            and isinstance(test.left, ast.Name) and test.left.id in flags:
        v = flags[test.left.id]
        c = test.comparators[0]
        if isinstance(c, ast.Constant) and c.value is None:
            isnone = None
            if v == "none":
                isnone = True
            elif v in ("notnone", True):
                isnone = False
            elif v is False:
                isnone = False     # the literal False is not None
            if isnone is None:
                return None
            if isinstance(test.ops[0], ast.Is):
                return isnone
            if isinstance(test.ops[0], ast.IsNot):
                return not isnone
        if isinstance(c, ast.Constant) and isinstance(v, str) \
                and v.startswith("=") and isinstance(test.ops[0], (ast.Eq, ast.NotEq)):
            eq = (v[1:] == str(c.value))
            return eq if isinstance(test.ops[0], ast.Eq) else not eq
    return None


# ---------------------------------------------------------------------------


class Mutation:
    def __init__(self, node, stmt, kind, roots, target):
        self.node = node
        self.stmt = stmt
        self.kind = kind          # 'store' | 'augstore' | 'attrstore' | 'call'
        self.roots = roots        # frozenset of roots of the mutated object
        self.target = target      # source text of the mutated expression


class Interp:
    """Sequential abstract walk of a function body.

    summaries: callable(call_node, func_name) -> dict with optional keys
        'mutates_args': [positions], 'mutates_receiver': bool,
        'returns': 'fresh' | 'arg0' | 'receiver' | None
    """

    def __init__(self, fnode, flags=None, self_name="self", summaries=None,
                 ctor_names=(), attr_rebind_ok=True):
        self.fnode = fnode
        self.flags = dict(flags or {})
        self.self_name = self_name
        self.summaries = summaries
        self.ctor_names = set(ctor_names)
        self.mutations = []
        self.attr_stores = []     # (target, stmt, value roots)
        self.returns = []         # (node, roots)
        self.calls = []           # (call node, receiver roots, arg roots)
        self.dead = []            # statements folded away
        self.env = {}
        a = fnode.args
        for p in a.posonlyargs + a.args + a.kwonlyargs:
            if p.arg == self_name:
                self.env[p.arg] = frozenset(["self"])
            else:
                self.env[p.arg] = frozenset([f"param:{p.arg}"])
        if a.vararg:
            self.env[a.vararg.arg] = frozenset([f"param:{a.vararg.arg}"])
        if a.kwarg:
            self.env[a.kwarg.arg] = frozenset([f"param:{a.kwarg.arg}"])

    # ------------------------------------------------------------- roots
    def roots(self, e):
        U = frozenset(["unknown"])
        F = frozenset(["fresh"])
        if e is None:
            return F
        if isinstance(e, ast.Name):
            return self.env.get(e.id, U if e.id not in ("None", "True", "False")
                                else F)
        if isinstance(e, ast.Constant):
            return F
        if isinstance(e, ast.Attribute):
            if e.attr in VIEW_ATTRS:
                return self.roots(e.value)
            base = self.roots(e.value)
            out = set()
            for r in base:
                if r.startswith("shallow(") and r.endswith(")"):
                    out.add(r[len("shallow("):-1])
                else:
                    out.add(r)
            return frozenset(out)
        if isinstance(e, ast.Subscript):
            return self.roots(e.value)
        if isinstance(e, ast.Starred):
            return self.roots(e.value)
        if isinstance(e, (ast.List, ast.Tuple, ast.Set)):
            # a display is fresh, but holds its elements
            out = set()
            for el in e.elts:
                out |= {r for r in self.roots(el) if r != "fresh"}
            return frozenset(out) if out else F
        if isinstance(e, (ast.Dict, ast.ListComp, ast.SetComp, ast.DictComp,
                          ast.GeneratorExp, ast.BinOp, ast.UnaryOp,
                          ast.Compare, ast.BoolOp, ast.JoinedStr,
                          ast.Lambda)):
            return F
        if isinstance(e, ast.IfExp):
            t = eval_test(e.test, self.flags)
            if t is True:
                return self.roots(e.body)
            if t is False:
                return self.roots(e.orelse)
            return self.roots(e.body) | self.roots(e.orelse)
        if isinstance(e, ast.Call):
            return self.call_roots(e)
        return U

    def call_roots(self, call):
        F = frozenset(["fresh"])
        name = dotted(call.func)
        short = name.split(".")[-1]
        if self.summaries is not None:
            s = self.summaries(call, name)
            if s is not None and "returns" in s:
                rv = s["returns"]
                if rv == "fresh":
                    return F
                if rv == "receiver" and isinstance(call.func, ast.Attribute):
                    return self.roots(call.func.value)
                if isinstance(rv, str) and rv.startswith("arg"):
                    i = int(rv[3:])
                    if i < len(call.args):
                        return self.roots(call.args[i])
                    return F
        if name in ("copy", "copy.copy"):
            if call.args:
                return frozenset(
                    "fresh" if r == "fresh" else f"shallow({r})"
                    for r in self.roots(call.args[0]))
            return F
        if name in COPYING_FUNCS or short in self.ctor_names \
                or name in self.ctor_names:
            return F
        if name in VIEW_FUNCS and call.args:
            return self.roots(call.args[0])
        if isinstance(call.func, ast.Attribute):
            if call.func.attr in COPYING_METHODS:
                return F
            if call.func.attr in VIEW_METHODS:
                return self.roots(call.func.value)
        if name in ("cls", "self.__class__", "type(self)"):
            return F
        return frozenset(["unknown"])

    # --------------------------------------------------------- statements
    def run(self):
        self.block(self.fnode.body)
        return self

    def block(self, body):
        """Interpret a statement list; True if it certainly does not fall
        through (return / raise on every folded path)."""
        for i, st in enumerate(body):
            if self.stmt(st):
                self.dead += body[i + 1:]
                return True
        return False

    def _merge(self, a, b):
        out = dict(a)
        for k, v in b.items():
            out[k] = out.get(k, frozenset()) | v if k in out else v
        return out

    def bind_target(self, t, roots):
        if isinstance(t, ast.Name):
            self.env[t.id] = roots
        elif isinstance(t, (ast.Tuple, ast.List)):
            for el in t.elts:
                self.bind_target(el, roots)
        elif isinstance(t, ast.Starred):
            self.bind_target(t.value, roots)

    def store(self, t, st, kind):
        """A store through target t (Subscript / Attribute)."""
        if isinstance(t, ast.Subscript):
            self.mutations.append(Mutation(
                t, st, kind, self.roots(t.value), dotted(t.value)))
        elif isinstance(t, ast.Attribute):
            self.mutations.append(Mutation(
                t, st, "attr" + kind, self.obj_roots(t.value),
                dotted(t)))
        elif isinstance(t, (ast.Tuple, ast.List)):
            for el in t.elts:
                self.store(el, st, kind)

    def obj_roots(self, e):
        """Roots of the *object* (not its data): shallow copies stay shallow."""
        if isinstance(e, ast.Name):
            return self.env.get(e.id, frozenset(["unknown"]))
        return self.roots(e)

    def scan_calls(self, node, st):
        for n in ast.walk(node):
            if not isinstance(n, ast.Call):
                continue
            name = dotted(n.func)
            argroots = [self.roots(a) for a in n.args]
            recv = None
            if isinstance(n.func, ast.Attribute):
                recv = self.obj_roots(n.func.value)
            self.calls.append((n, recv, argroots, st))
            for k in n.keywords:
                if k.arg == "out":
                    self.mutations.append(Mutation(
                        n, st, "call", self.roots(k.value),
                        dotted(k.value)))
            if name in INPLACE_NP and n.args:
                self.mutations.append(Mutation(
                    n, st, "call", argroots[INPLACE_NP[name]],
                    dotted(n.args[0])))
            if isinstance(n.func, ast.Attribute) \
                    and n.func.attr in MUTATING_METHODS:
                self.mutations.append(Mutation(
                    n, st, "call", self.roots(n.func.value),
                    dotted(n.func.value)))
            if self.summaries is not None:
                s = self.summaries(n, name)
                if s:
                    for i in s.get("mutates_args", ()):
                        if i < len(n.args):
                            self.mutations.append(Mutation(
                                n, st, "call", argroots[i],
                                dotted(n.args[i])))
                    if s.get("mutates_receiver") and recv is not None:
                        self.mutations.append(Mutation(
                            n, st, "call-method", recv,
                            dotted(n.func.value)))

    def stmt(self, st):
        if isinstance(st, (ast.FunctionDef, ast.AsyncFunctionDef,
                           ast.ClassDef)):
            return
        if isinstance(st, ast.Assign):
            self.scan_calls(st.value, st)
            rts = self.roots(st.value)
            for t in st.targets:
                if isinstance(t, (ast.Name, ast.Tuple, ast.List)) and not any(
                        isinstance(x, (ast.Subscript, ast.Attribute))
                        for x in ast.walk(t)):
                    self.bind_target(t, rts)
                else:
                    self.store(t, st, "store")
                    if isinstance(t, ast.Attribute):
                        self.attr_stores.append((t, st, rts))
            return
        if isinstance(st, ast.AnnAssign):
            if st.value is not None:
                self.scan_calls(st.value, st)
                self.bind_target(st.target, self.roots(st.value))
            return
        if isinstance(st, ast.AugAssign):
            self.scan_calls(st.value, st)
            if isinstance(st.target, ast.Name):
                # in-place on arrays/lists: mutates what the name refers to
                self.mutations.append(Mutation(
                    st.target, st, "augstore",
                    self.roots(st.target), st.target.id))
            else:
                self.store(st.target, st, "augstore")
            return
        if isinstance(st, ast.Expr):
            self.scan_calls(st.value, st)
            return
        if isinstance(st, ast.Return):
            if st.value is not None:
                self.scan_calls(st.value, st)
            self.returns.append((st, self.obj_roots(st.value)
                                 if st.value is not None
                                 else frozenset(["fresh"])))
            return True
        if isinstance(st, ast.If):
            self.scan_calls(st.test, st)
            t = eval_test(st.test, self.flags)
            if t is True:
                self.dead += st.orelse
                return self.block(st.body)
            if t is False:
                self.dead += st.body
                return self.block(st.orelse)
            env0 = dict(self.env)
            t1 = self.block(st.body)
            env1 = self.env
            self.env = dict(env0)
            t2 = self.block(st.orelse)
            if t1 and t2:
                return True
            if t1:
                return False          # only the else-environment survives
            if t2:
                self.env = env1
                return False
            self.env = self._merge(env1, self.env)
            return False
        if isinstance(st, (ast.For, ast.AsyncFor)):
            self.scan_calls(st.iter, st)
            it = st.iter
            rts = self.iter_roots(it)
            for _ in range(2):
                self.bind_target(st.target, rts)
                self.block(st.body)
            self.block(st.orelse)
            return
        if isinstance(st, ast.While):
            self.scan_calls(st.test, st)
            for _ in range(2):
                self.block(st.body)
            self.block(st.orelse)
            return
        if isinstance(st, (ast.With, ast.AsyncWith)):
            for it in st.items:
                self.scan_calls(it.context_expr, st)
                if it.optional_vars is not None:
                    self.bind_target(it.optional_vars,
                                     self.roots(it.context_expr))
            self.block(st.body)
            return
        if isinstance(st, ast.Try):
            env0 = dict(self.env)
            self.block(st.body)
            envs = [self.env]
            for h in st.handlers:
                self.env = self._merge(env0, envs[0])
                self.block(h.body)
                envs.append(self.env)
            self.env = envs[0]
            for e in envs[1:]:
                self.env = self._merge(self.env, e)
            self.block(st.orelse)
            self.block(st.finalbody)
            return
        if isinstance(st, ast.Raise):
            if st.exc is not None:
                self.scan_calls(st.exc, st)
            return True
        if isinstance(st, ast.Delete):
            for t in st.targets:
                self.store(t, st, "store")
            return
        # pass, break, continue, global, import, assert ...
        if isinstance(st, ast.Assert):
            self.scan_calls(st.test, st)

    def iter_roots(self, it):
        """Roots of the loop variable when iterating `it`."""
        if isinstance(it, ast.Call):
            name = dotted(it.func)
            if name in ("enumerate", "zip", "list", "reversed", "sorted",
                        "iter", "tuple"):
                out = set()
                for a in it.args:
                    out |= self.iter_roots(a)
                return frozenset(out) or frozenset(["fresh"])
            if isinstance(it.func, ast.Attribute) and it.func.attr in (
                    "items", "values"):
                return self.roots(it.func.value)
            if isinstance(it.func, ast.Attribute) and it.func.attr == "keys":
                return frozenset(["fresh"])
            if name == "range":
                return frozenset(["fresh"])
        return self.roots(it)
