"""C03 -- transformations are a left group action (S1, P1, W1, RO, U1)."""
from ..rules import enum_rules as E
from ..rules import misc_rules as MI
from ..rules import dtype_rules as DT
from ..rules import proj_rules as P
from ..rules import rep_rules as R
from ..rules import cache_rules as CA
from ..rules import shape_rules as SH
from ..rules.common import u1

PROJ, HYP = P.PROJ, P.HYP
ENTRIES = [
    (PROJ, "Transformation.apply"), (PROJ, "Transformation.__matmul__"),
    (PROJ, "Transformation.inv"), (PROJ, "Transformation._apply_to_data"),
    (PROJ, "Transformation.__init__"), (HYP, "Isometry.__init__"),
    (PROJ, "ProjectiveRepresentation.wrap_func"),
    (PROJ, "ProjectiveRepresentation.unwrap_func"),
    (PROJ, "ProjectiveRepresentation.array_wrap_func"),
    (PROJ, "ProjectiveRepresentation.transformations"),
    (HYP, "HyperbolicRepresentation.wrap_func"),
    (HYP, "HyperbolicRepresentation.array_wrap_func"),
    (HYP, "HyperbolicRepresentation.isometries"),
    ("geometry_tools/representation.py", "Representation.__getitem__"),
    ("geometry_tools/representation.py", "Representation.elements"),
    ("geometry_tools/representation.py", "Representation.__setitem__"),
    ("geometry_tools/utils/core.py", "matrix_product"),
]


def run(ctx):
    ctx.do(P.rule_dual1)
    ctx.do(MI.rule_pinv1)
    ctx.do(MI.rule_inv3)
    # the inverse is typed like its argument only if no quotient is stored
    # into an integer buffer
    ctx.do(DT.rule_lk1, ["geometry_tools/utils/core.py"], scope={ctx.p.get_function("geometry_tools/utils/core.py", "invert")})
    ctx.do(MI.rule_rc2, ["geometry_tools/hyperbolic.py", "geometry_tools/projective.py"])
    ctx.do(MI.rule_invs1)
    ctx.do(E.rule_m3)
    ctx.do(E.rule_m4)
    ctx.do(P.rule_s1, ops=[(PROJ, "Transformation.apply")])
    ctx.do(P.rule_p1, ops=[o for o in P.P1_OPS if "Transformation" in o[1]])
    ctx.do(P.rule_roles)
    ctx.do(R.rule_w1)
    ctx.do(R.rule_rep_structure)
    ctx.do(CA.rule_c2, "ProjectiveObject", scope=ctx.scope(ENTRIES))
    ctx.do(CA.rule_cls1, "Representation")
    ctx.do(CA.rule_cls1, "ProjectiveObject")
    ctx.do(P.rule_ts1)
    ctx.do(SH.rule_sh3)
    ctx.do(u1, ENTRIES, min_functions=20)
    ctx.r.assume("associativity, identity and inverse laws as numerical "
                 "equalities and real/complex generality are not decided")
