"""C03 -- transformations are a left group action (S1, P1, W1, RO, U1)."""
from ..rules import proj_rules as P
from ..rules import rep_rules as R
from ..rules import cache_rules as CA
from ..rules.common import u1

PROJ, HYP = P.PROJ, P.HYP
ENTRIES = [
    (PROJ, "Transformation.apply"), (PROJ, "Transformation.__matmul__"),
    (PROJ, "Transformation.inv"), (PROJ, "Transformation._apply_to_data"),
    (PROJ, "Transformation.__init__"), (HYP, "Isometry.__init__"),
    (PROJ, "ProjectiveRepresentation.wrap_func"),
    (PROJ, "ProjectiveRepresentation.unwrap_func"),
    (PROJ, "ProjectiveRepresentation.array_wrap_func"),
    (PROJ, "ProjectiveRepresentation.transformations"),
    (HYP, "HyperbolicRepresentation.wrap_func"),
    (HYP, "HyperbolicRepresentation.array_wrap_func"),
    (HYP, "HyperbolicRepresentation.isometries"),
    ("geometry_tools/representation.py", "Representation.__getitem__"),
    ("geometry_tools/representation.py", "Representation.elements"),
    ("geometry_tools/representation.py", "Representation.__setitem__"),
    ("geometry_tools/utils/core.py", "matrix_product"),
]


def run(ctx):
    P.rule_s1(ctx, ops=[(PROJ, "Transformation.apply")])
    P.rule_p1(ctx, ops=[o for o in P.P1_OPS if "Transformation" in o[1]])
    P.rule_roles(ctx)
    R.rule_w1(ctx)
    CA.rule_c2(ctx, "ProjectiveObject")
    u1(ctx, ENTRIES, min_functions=20)
    ctx.r.assume("associativity, identity and inverse laws as numerical "
                 "equalities and real/complex generality are not decided")
