"""C10 -- automaton operations transform the language as documented
(B1 acceptance/walk agreement, B2 vivifying reads, P1 purity, even=multiple(2))."""
import ast

from ..project import AnalysisError, loc, norm_stmt
from ..rules import fsa_rules as F
from ..rules import cache_rules as CA
from ..rules import sibling_rules as SI
from ..rules.common import u1, n1

REL = F.FSA_REL
ENTRIES = [(REL, "FSA." + m) for m in (
    "accepts", "follow_word", "initial_accepted_subword",
    "initial_rejected_subword", "enumerate_fixed_length_paths",
    "enumerate_words", "automaton_multiple", "even_automaton", "recurrent",
    "remove_long_paths", "rename_generators", "has_edge", "edge_label",
    "edge_labels")]


def rule_even(ctx):
    r = ctx.r
    r.rule("EV", "even_automaton returns automaton_multiple(2) (literal)")
    f = ctx.p.get_function(REL, "FSA.even_automaton")
    r.analysed(f)
    rets = [n for n in ast.walk(f.node) if isinstance(n, ast.Return)]
    ok = (len(rets) == 1 and isinstance(rets[0].value, ast.Call)
          and ast.unparse(rets[0].value.func) == "self.automaton_multiple"
          and len(rets[0].value.args) + len(rets[0].value.keywords) == 1)
    val = None
    if ok:
        a = (rets[0].value.args or [k.value for k in rets[0].value.keywords])[0]
        val = a.value if isinstance(a, ast.Constant) else None
    if ok and val == 2:
        r.ok("EV", "even_automaton", loc(f, rets[0]), norm_stmt(rets[0]),
             "delegates to automaton_multiple(2)")
    else:
        st = rets[0] if rets else f.node
        r.violation("EV", f"{f.fq}|return", loc(f, st),
                    norm_stmt(st)[:120],
                    "even_automaton does not return "
                    "self.automaton_multiple(2): the 'even' language is not "
                    "the multiple-of-2 language", instance="even_automaton")


def run(ctx):
    ctx.do(F.rule_b1)
    ctx.do(F.rule_b2)
    ctx.do(F.rule_p1_fsa)
    ctx.do(rule_even)
    ctx.do(n1, ["geometry_tools/automata/fsa.py"])
    ctx.do(CA.rule_c2, "FSA")
    ctx.do(F.rule_rf1)
    ctx.do(F.rule_v1p)
    ctx.do(SI.rule_v2_rename)
    ctx.do(SI.rule_fk1, [SI.FSA])
    ctx.do(SI.rule_bfs1)
    ctx.do(SI.rule_dv1)
    ctx.do(SI.rule_bfs2)
    ctx.do(SI.rule_acc1, [SI.FSA])
    ctx.do(u1, ENTRIES, min_functions=12)
    ctx.r.assume("language equality for multiples, relabelling, pruning and "
                 "the shortest-path subgraph is not decided (needs values)")
