"""C10 -- automaton operations transform the language as documented
(B1 acceptance/walk agreement, B2 vivifying reads, P1 purity, even=multiple(2))."""
import ast

from ..project import AnalysisError, loc, norm_stmt
from ..rules import misc_rules as MI
from ..rules import fsa_rules as F
from ..rules import cache_rules as CA
from ..rules import sibling_rules as SI
from ..rules.common import u1, n1

REL = F.FSA_REL
ENTRIES = [(REL, "FSA." + m) for m in (
    "accepts", "follow_word", "initial_accepted_subword",
    "initial_rejected_subword", "enumerate_fixed_length_paths",
    "enumerate_words", "automaton_multiple", "even_automaton", "recurrent",
    "remove_long_paths", "rename_generators", "has_edge", "edge_label",
    "edge_labels")]


def rule_even(ctx):
    from ..norm import forward_subst
    r = ctx.r
    r.rule("EV", "where even_automaton delegates to automaton_multiple, the "
                 "multiple is 2 (after substituting straight-line locals); "
                 "an implementation that does not delegate is not judged")
    f = ctx.p.get_function(REL, "FSA.even_automaton")
    r.analysed(f)
    rets, _ = forward_subst(f.node)
    calls = [c for e in rets if e is not None for c in ast.walk(e)
             if isinstance(c, ast.Call)
             and ast.unparse(c.func) == "self.automaton_multiple"]
    if not calls:
        r.note("EV", loc(f, f.node), "even_automaton",
               "does not return self.automaton_multiple(...) (not judged)")
        return
    for c in calls:
        a = (list(c.args) + [k.value for k in c.keywords
                             if k.arg in ("multiple", None)])
        val = a[0].value if a and isinstance(a[0], ast.Constant) else None
        if val == 2 and len(c.args) + len(c.keywords) == 1:
            r.ok("EV", "even_automaton", loc(f, f.node), ast.unparse(c),
                 "delegates to automaton_multiple(2)")
        elif isinstance(val, int) or (a and isinstance(a[0], ast.Constant)):
            r.violation("EV", f"{f.fq}|return", loc(f, f.node),
                        ast.unparse(c)[:120],
                        f"even_automaton returns automaton_multiple({val!r})"
                        ": the 'even' language is not the multiple-of-2 "
                        "language", instance="even_automaton")
        else:
            r.note("EV", loc(f, f.node), ast.unparse(c)[:80],
                   "multiple is not a literal (not judged)")


def run(ctx):
    ctx.do(F.rule_bfs5)
    ctx.do(F.rule_md1)
    ctx.do(F.rule_n2)
    ctx.do(F.rule_hid1)
    ctx.do(F.rule_b1)
    ctx.do(F.rule_b2)
    ctx.do(F.rule_p1_fsa)
    ctx.do(rule_even)
    ctx.do(n1, ["geometry_tools/automata/fsa.py"])
    ctx.do(CA.rule_c2, "FSA")
    ctx.do(F.rule_rf1)
    ctx.do(F.rule_v1p)
    ctx.do(SI.rule_v2_rename)
    ctx.do(SI.rule_fk1, [SI.FSA])
    ctx.do(SI.rule_bfs1)
    ctx.do(SI.rule_dv1)
    ctx.do(MI.rule_bfs3)
    ctx.do(MI.rule_invmap1, ["geometry_tools/automata/fsa.py", "geometry_tools/automata/kbmag_utils.py"])
    ctx.do(MI.rule_ret1, ["geometry_tools/automata/fsa.py"])
    ctx.do(SI.rule_bfs2)
    ctx.do(SI.rule_acc1, [SI.FSA])
    ctx.do(u1, ENTRIES, min_functions=12)
    ctx.r.assume("language equality for multiples, relabelling, pruning and "
                 "the shortest-path subgraph is not decided (needs values)")
