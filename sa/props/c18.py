"""C18 -- indefinite linear-algebra helpers (narrow: batch axes, axis
discipline, consistent permutations; not the numerical contracts)."""
from ..rules import shape_rules as S
from ..rules import sibling_rules as SI
from ..rules import misc_rules as MI
from ..rules import numpy_rules as NPR
from ..rules import dtype_rules as D
from ..rules.common import u1

CORE = S.CORE
ENTRIES = [(CORE, q) for q in (
    "projection", "indefinite_orthogonalize", "find_isometry",
    "find_definite_isometry", "orthogonal_complement", "diagonalize_form",
    "permute_along_axis", "construct_diagonal", "kernel", "circle_through",
    "sphere_through", "circle_angles", "short_arc", "right_to_left",
    "arc_include", "make_orientation_preserving")]

SH2_ROWS = {"projection", "indefinite_orthogonalize", "circle_angles",
            "short_arc", "right_to_left", "arc_include", "sphere_through",
            "circle_through", "apply_bilinear", "normsq", "normalize",
            "find_isometry", "orthogonal_complement", "construct_diagonal",
            "permute_along_axis"}


def run(ctx):
    ctx.do(NPR.rule_viewaug1, ["geometry_tools/utils/core.py"])
    ctx.do(S.rule_sh2, only=SH2_ROWS)
    ctx.do(S.rule_ax1, [CORE], scope=ctx.scope(ENTRIES))
    ctx.do(SI.rule_pa1)
    # projection / indefinite_orthogonalize through their client: no
    # selection by an absolute threshold on scale-dependent rows
    ctx.do(S.rule_hom1, parts=("hyp",), only={"TangentVector._compute_aux_data"})
    ctx.do(SI.rule_svd1)
    ctx.do(SI.rule_eigh1)
    ctx.do(NPR.rule_neg0, ["geometry_tools/utils/numerical.py", "geometry_tools/utils/core.py"])
    ctx.do(MI.rule_form1)
    ctx.do(MI.rule_ori1)
    ctx.do(MI.rule_pair1)
    ctx.do(MI.rule_nonneg1, ["geometry_tools/utils/core.py", "geometry_tools/coxeter.py"])
    ctx.do(MI.rule_eigh2, ["geometry_tools/utils/core.py", "geometry_tools/coxeter.py"])
    ctx.do(D.rule_t3, [CORE])
    ctx.do(u1, ENTRIES, min_functions=12)
    ctx.r.assume("orthogonality, spans, signatures, kernels, that the "
                 "sphere contains its points and that the selected arc is "
                 "the short / right-to-left / reference-containing one are "
                 "numerical contracts of the returned arrays and are not "
                 "decided; decided are only: the batch axes of every helper "
                 "(including no batch axis at all), the axis discipline of "
                 "reordering calls, and that W and W^-1 are permuted with "
                 "the same order")
