"""C17 -- the Lie-group maps (narrow: "for single matrices and for arrays of
matrices alike", the dtype of the images, reachability; not the homomorphism
identities)."""
from ..rules import numpy_rules as NP
from ..rules import misc_rules as MI
from ..rules import cache_rules as CA
from ..rules import shape_rules as S
from ..rules import dtype_rules as D
from ..rules.common import u1

LIE = S.LIE
HOM = "geometry_tools/lie/hom.py"
ENTRIES = [(LIE, q) for q in (
    "sl2_irrep", "binom", "sl2_to_so21", "o_to_pgl", "linear_matrix_action",
    "sln_linear_action", "sln_adjoint", "gln_adjoint", "sln_killing_form",
    "sl2c_herm_action", "sl2c_to_so31", "slc_to_slr", "block_include")] + [
    (HOM, q) for q in ("_wrap_hom", "sl2_irrep", "sln_adjoint",
                       "gln_adjoint", "sl2_to_so21", "so21_to_sl2",
                       "slc_to_slr", "sl2c_to_so31", "block_include")]


def run(ctx):
    ctx.do(S.rule_sh8)
    ctx.do(MI.rule_fwd1, HOM)
    ctx.do(CA.rule_shared1, [LIE, HOM, "geometry_tools/utils/core.py"])
    ctx.do(D.rule_t4, [LIE, HOM])
    ctx.do(D.rule_t3, [LIE])
    ctx.do(NP.rule_mk2, [LIE])
    ctx.do(NP.rule_clo1, [LIE, HOM])
    ctx.do(NP.rule_stk1, [LIE, HOM])
    ctx.do(D.rule_lk1, [LIE])
    ctx.do(D.rule_lk3, [LIE, HOM])
    ctx.do(MI.rule_exp1, [LIE])
    ctx.do(S.rule_ax1, [LIE, HOM])
    ctx.do(u1, ENTRIES, min_functions=12)
    ctx.r.assume("that products go to products, determinants, preserved "
                 "forms, the Killing form and the inverse up to sign are "
                 "polynomial identities of the computed matrices and are "
                 "not decided; decided are only the batch axes of each "
                 "map's image (including a single matrix), that no image "
                 "is typed from a callable, and that no unbound name is "
                 "reachable")
