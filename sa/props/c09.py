"""C09 -- an automaton's three views stay coherent (V1, V2, B1, U1)."""
from ..rules import numpy_rules as NP
from ..rules import misc_rules as MI
from ..rules import fsa_rules as F
from ..rules import cache_rules as CA
from ..rules import sibling_rules as SI
from ..rules.common import u1, n1

REL = F.FSA_REL
ENTRIES = [(REL, "FSA." + m) for m in (
    "__init__", "add_vertices", "add_edges", "delete_vertices",
    "delete_vertex", "recurrent", "rename_generators", "remove_long_paths",
    "automaton_multiple", "even_automaton", "edges", "edges_out", "edges_in",
    "neighbors_out", "neighbors_in", "has_edge", "edge_label", "edge_labels",
    "vertices", "follow_word", "accepts")] + [
    (REL, "free_automaton"), (REL, "_from_gap_record"), (REL, "load_builtin"),
    (REL, "load_kbmag_file"),
    ("geometry_tools/automata/gap_parse.py", "parse_record"),
    ("geometry_tools/automata/kbmag_utils.py", "build_dict"),
]


def run(ctx):
    ctx.do(F.rule_md1)
    ctx.do(F.rule_n2)
    ctx.do(F.rule_elist1)
    ctx.do(F.rule_retarget1)
    ctx.do(F.rule_hid1)
    ctx.do(F.rule_v1)
    ctx.do(F.rule_dc1)
    ctx.do(F.rule_iter1, ["geometry_tools/automata/fsa.py", "geometry_tools/utils/words.py", "geometry_tools/representation.py"])
    ctx.do(F.rule_vrow1)
    ctx.do(MI.rule_invmap1, ["geometry_tools/automata/fsa.py", "geometry_tools/automata/kbmag_utils.py"])
    ctx.do(F.rule_v2)
    ctx.do(F.rule_b1)
    # N1 only for the construction / edit methods the statement names (the
    # enumerators belong to C10 / C06)
    edit = [(REL, "FSA." + m) for m in (
        "__init__", "_from_graph_dict", "_build_in_dict", "_build_graph_dict",
        "add_vertices", "add_edges", "delete_vertices", "delete_vertex",
        "recurrent", "rename_generators", "remove_long_paths")] + [
        (REL, "_from_gap_record"), (REL, "load_builtin"),
        (REL, "free_automaton"), (REL, "_hidden_vertices"),
        ("geometry_tools/automata/kbmag_utils.py", "build_dict")]
    from ..rules.common import entries as _entries
    ctx.do(n1, ["geometry_tools/automata/fsa.py",
                "geometry_tools/automata/kbmag_utils.py"],
           scope=set(_entries(ctx, edit)))
    ctx.do(CA.rule_c2, "FSA")
    ctx.do(CA.rule_cls1, "FSA")
    ctx.do(F.rule_v1p)
    ctx.do(F.rule_rf1)
    ctx.do(SI.rule_fk1, [SI.FSA])
    ctx.do(SI.rule_v2_rename)
    ctx.do(SI.rule_dv1)
    ctx.do(NP.rule_mc1, [SI.FSA])
    ctx.do(SI.rule_acc1, [SI.FSA])
    ctx.do(MI.rule_ofs1)
    ctx.do(MI.rule_ret1, ["geometry_tools/automata/fsa.py"])
    ctx.do(u1, ENTRIES, min_functions=25)
    ctx.r.assume("set-based model equality over histories and the GAP "
                 "parser's string semantics are not decided (numerical / "
                 "parser behaviour)")
