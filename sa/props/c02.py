"""C02 -- every isometry the library builds preserves the Minkowski form.
Narrow: structural necessary conditions only (FORM1, BLK1, INV3, PINV1, RO,
HOM1 on the constructors, T1, U1); the numerical identity itself is not
decided."""
from ..rules import misc_rules as MI
from ..rules import dtype_rules as D
from ..rules import hyp_rules as H
from ..rules import proj_rules as P
from ..rules import shape_rules as SH
from ..rules.common import u1

HYP = H.HYP
CORE = "geometry_tools/utils/core.py"
LIE = "geometry_tools/lie/core.py"
PROJ = "geometry_tools/projective.py"
COX = "geometry_tools/coxeter.py"
ENTRIES = [(HYP, q) for q in (
    "Point.origin_to", "TangentVector.origin_to", "TangentVector.isometry_to",
    "Isometry.elliptic", "Isometry.standard_loxodromic",
    "Isometry.standard_rotation", "Isometry.from_sl2", "sl2_iso",
    "Subspace.reflection_across", "timelike_to", "spacelike_to",
    "identity")] + [
    (CORE, q) for q in ("indefinite_orthogonalize", "find_isometry",
                        "make_orientation_preserving", "diagonalize_form",
                        "invert", "projection", "normalize")] + [
    (LIE, "sl2_to_so21"), (COX, "CoxeterGroup.hyperbolic_rep"),
    (PROJ, "Transformation.apply"), (PROJ, "Transformation.inv")]


def run(ctx):
    ctx.do(MI.rule_form1)
    ctx.do(MI.rule_blk1)
    ctx.do(MI.rule_nanflow1)
    ctx.do(MI.rule_inv3)
    ctx.do(MI.rule_pinv1)
    ctx.do(MI.rule_ori1)
    ctx.do(MI.rule_pair1)
    ctx.do(MI.rule_nonneg1, [CORE])
    ctx.do(P.rule_roles)
    ctx.do(D.rule_t1, ENTRIES,
           "Isometry.standard_rotation(angle) with a Python float reaches "
           "the dtype probe through rotation_matrix / utils.identity(like=)")
    ctx.do(SH.rule_hom1, parts=("hyp",), only={
        "Point.origin_to", "TangentVector.origin_to",
        "TangentVector.isometry_to", "Subspace.reflection_across",
        "Hyperplane.reflection_across", "None.timelike_to",
        "None.spacelike_to"})
    ctx.do(D.rule_lk1, [HYP], scope=ctx.scope(ENTRIES))
    ctx.do(D.rule_lk3, [HYP, CORE, LIE])
    ctx.do(u1, ENTRIES, min_functions=15)
    ctx.r.assume("form preservation itself (M^T J M = J for the computed "
                 "matrices, distances unchanged, the SL(2,R) -> SO(2,1) "
                 "polynomial identity, the diagonalised Coxeter form) is a "
                 "numerical identity and is not decided; decided are the "
                 "structural necessary conditions listed in the rules")
