"""C11 -- derived data stays coherent; queries do not move objects
(S1, S2, S3, P1, U1)."""
from ..rules import misc_rules as MI
from ..rules import degree_rules as DG
from ..rules import numpy_rules as NP
from ..rules import dtype_rules as DT
from ..rules import proj_rules as P
from ..rules import cache_rules as CA
from ..rules import shape_rules as SH
from ..rules import sibling_rules as SI
from ..rules.common import u1

PROJ, HYP = P.PROJ, P.HYP
ENTRIES = [(PROJ, "ProjectiveObject." + m) for m in (
    "__init__", "set", "reshape", "flatten_to_unit", "__getitem__",
    "__setitem__", "astype", "combine", "_construct_from_object")] + [
    (PROJ, "Transformation.apply"), (PROJ, "Polygon.__init__"),
    (PROJ, "Polygon._compute_aux_data"), (PROJ, "Polygon.get_edges"),
    (PROJ, "ConvexPolygon.__init__"), (PROJ, "ConvexPolygon.set"),
    (HYP, "Segment.__init__"), (HYP, "Segment._compute_aux_data"),
    (HYP, "TangentVector.__init__"), (HYP, "TangentVector._compute_aux_data"),
    (HYP, "Polygon.__init__"), (HYP, "Polygon._compute_aux_data"),
    (HYP, "Polygon.get_edges"), (HYP, "Segment.ideal_endpoint_coords"),
]


def run(ctx):
    ctx.do(DT.rule_lk4)
    ctx.do(MI.rule_homdiv1)
    ctx.do(P.rule_s1)
    # the stored tangent vector is homogeneous of degree 0 in the base point
    ctx.do(DG.rule_hd1)
    ctx.do(DG.rule_hd1_attr)
    ctx.do(SH.rule_ax1, ["geometry_tools/hyperbolic.py", "geometry_tools/projective.py"])
    ctx.do(P.rule_dual1)
    ctx.do(MI.rule_s1u)
    ctx.do(P.rule_s2)
    ctx.do(P.rule_s3)
    ctx.do(P.rule_p1)
    ctx.do(P.rule_p1g)
    ctx.do(P.rule_fr2)
    ctx.do(CA.rule_c2, "ProjectiveObject", scope=ctx.scope(ENTRIES))
    ctx.do(CA.rule_cls1, "ProjectiveObject")
    ctx.do(P.rule_fr1, accessors=False)
    ctx.do(P.rule_ts1)
    ctx.do(MI.rule_sgn1, ["geometry_tools/hyperbolic.py", "geometry_tools/projective.py"])
    ctx.do(NP.rule_ord1, ["geometry_tools/projective.py", "geometry_tools/hyperbolic.py"])
    ctx.do(DT.rule_lk2, ["geometry_tools/projective.py"])
    ctx.do(SH.rule_hom1, parts=("hyp",), only={
        "TangentVector._compute_aux_data", "Segment._compute_aux_data"})
    ctx.do(SH.rule_sh3)
    ctx.do(SH.rule_sh7, only={
        "Polygon.flatten_to_unit", "Polygon.reshape", "Polygon.astype",
        "Polygon.__getitem__", "Polygon.get_edges", "Polygon.get_vertices",
        "Polygon._compute_aux_data", "PointPair.get_endpoints"})
    ctx.do(SI.rule_s1c)
    ctx.do(SI.rule_gi1)
    ctx.do(u1, ENTRIES, min_functions=30)
    ctx.r.assume("numerical equality of stored and recomputed derived data "
                 "and the effect of numerical queries (in-place row "
                 "normalisation is projectively neutral) are not decided")
