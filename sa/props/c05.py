"""C05 -- representations are word homomorphisms (U1, HAD, INV, FOLD, CONJ, DU, W1)."""
from ..rules import misc_rules as MI
from ..rules import fsa_rules as FS
from ..rules import rep_rules as R
from ..rules import cache_rules as CA
from ..rules import sibling_rules as SI
from ..rules.common import u1, n1

REP = R.REP
ENTRIES = [(REP, "Representation." + m) for m in (
    "__getitem__", "element", "elements", "_word_value", "_set_generator",
    "set_generator", "__setitem__", "__init__", "_compose", "compose",
    "conjugate", "_conjugate", "dual", "astype", "change_base_ring",
    "subgroup", "tensor_product", "symmetric_square", "gln_adjoint",
    "sln_adjoint", "differential", "differentials", "_differential",
    "cocycle_matrix", "coboundary_matrix", "parse_word", "asym_gens")] + [
    (REP, "sym_index"), (REP, "symmetric_inclusion"),
    (REP, "symmetric_projection"), (REP, "tensor_pos"), (REP, "tensor_index"),
    ("geometry_tools/utils/words.py", "simplify_word"),
    ("geometry_tools/utils/words.py", "formal_inverse"),
    ("geometry_tools/utils/words.py", "fox_word_derivative"),
]


def run(ctx):
    ctx.r.rule("DU", "dual = compose with exactly one inverse and one "
                     "transpose")
    ctx.do(R.rule_had)
    ctx.do(MI.rule_defer1, REP, "Representation")
    ctx.do(MI.rule_resplit1, REP)
    ctx.do(FS.rule_md1, REP, "Representation.__init__")
    ctx.do(MI.rule_genacc1, REP)
    ctx.do(R.rule_rep_structure)
    ctx.do(R.rule_w1)
    ctx.do(n1, ["geometry_tools/representation.py"], scope=ctx.scope(ENTRIES))
    ctx.do(CA.rule_c2, "Representation", scope=ctx.scope(ENTRIES))
    ctx.do(CA.rule_cls1, "Representation")
    ctx.do(SI.rule_tp1)
    ctx.do(R.rule_zs1)
    ctx.do(R.rule_sym1)
    ctx.do(MI.rule_invs1)
    ctx.do(MI.rule_invs2)
    ctx.do(MI.rule_agg1)
    ctx.do(R.rule_wp1)
    ctx.do(SI.rule_gen_order)
    ctx.do(SI.rule_elt1)
    ctx.do(u1, ENTRIES, min_functions=30)
    ctx.r.assume("the homomorphism law over all words and matrices, free "
                 "reduction and the Fox fundamental formula are numerical / "
                 "algebraic identities and not decided")
