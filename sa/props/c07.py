"""C07 -- Coxeter automata accept exactly the geodesic / shortlex normal
forms. Narrow: flag threading, the shared infinity convention, the generator
order, the reducedness guard and the pruning condition (THR1, EVEN2, ORD2,
INFC, INF1, CM1, GEO1, LEX1, EV, U1). The correctness of the Brink-Howlett
construction itself is not decided."""
from ..rules import cox_rules as X
from ..rules import fsa_rules as F
from ..rules import sibling_rules as SI
from ..rules import numpy_rules as NP
from ..rules.common import n1
from ..rules.common import u1

COX, CA = X.COX, X.CA
ENTRIES = [(COX, "CoxeterGroup.automaton"),
           (CA, "generate_automaton_coxeter_matrix"),
           (CA, "generate_automaton"), (CA, "find_small_roots"),
           (CA, "apply_gen_to_node"), (CA, "find_root_from_vector"),
           (CA, "find_word_to_negative"), (CA, "apply_gen_to_root"),
           (CA, "form_gen_root"),
           (F.FSA_REL, "FSA.rename_generators"),
           (F.FSA_REL, "FSA.even_automaton"),
           (F.FSA_REL, "FSA.automaton_multiple")]


def run(ctx):
    ctx.do(F.rule_bfs5)
    ctx.do(X.rule_thr1)
    ctx.do(X.rule_even2)
    ctx.do(X.rule_ord2)
    ctx.do(X.rule_infc)
    ctx.do(SI.rule_inf1)
    ctx.do(SI.rule_cm1)
    ctx.do(X.rule_geo1)
    ctx.do(X.rule_lex1)
    ctx.do(X.rule_bfs4)
    ctx.do(X.rule_tol2)
    ctx.do(X.rule_sent1, [CA, COX])
    ctx.do(n1, [COX], lookup_rels=[COX])
    ctx.do(NP.rule_key1, [COX, CA, F.FSA_REL])
    ctx.do(NP.rule_mc1, [COX, CA])
    from .c10 import rule_even
    ctx.do(rule_even)
    ctx.do(u1, ENTRIES, min_functions=10)
    ctx.r.assume("that the small-root enumeration is complete, that the "
                 "state transition computes the inverted small roots and "
                 "that the accepted language is exactly the reduced / "
                 "shortlex words (an infinite-language statement needing a "
                 "word-problem oracle) is not decided")
