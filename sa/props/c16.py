"""C16 -- affine charts, affine maps, subspace operations (C1, R1c, I1c, U1)."""
from ..rules import misc_rules as MI
from ..rules import numpy_rules as NPR
from ..rules import dtype_rules as DT
from ..rules import chart_rules as R
from ..rules import cache_rules as CA
from ..rules import proj_rules as PR
from ..rules import shape_rules as SH
from ..rules import sibling_rules as SI
from ..rules.common import u1, n1

P = R.PROJ
ENTRIES = [
    (P, "affine_coords"), (P, "projective_coords"),
    (P, "ProjectiveObject.affine_coords"), (P, "Point.__init__"),
    (P, "Point.in_affine_chart"), (P, "affine_linear_map"),
    (P, "affine_translation"), (P, "hyperplane_coordinate_transform"),
    (P, "Subspace.intersect"), (P, "Transformation.eigenvector"),
    (P, "Transformation.diagonalize"), (P, "Transformation.apply"),
]


def run(ctx):
    ctx.do(R.rule_c1)
    ctx.do(R.rule_chart_slot)
    ctx.do(n1, ["geometry_tools/projective.py"], scope=ctx.scope(ENTRIES))
    ctx.do(PR.rule_bm1)
    ctx.do(SH.rule_sh4)
    ctx.do(CA.rule_c2, "ProjectiveObject", scope=ctx.scope(ENTRIES))
    ctx.do(SH.rule_sh7, only={
        "Point.projective_coords", "Point.affine_coords",
        "Point.in_affine_chart", "PointPair.endpoint_affine_coords",
        "PointPair.endpoint_projective_coords", "Polygon.in_standard_chart",
        "None.affine_coords", "None.projective_coords",
        "Transformation.diagonalize", "Transformation.inv"})
    ctx.do(SI.rule_eig1, only={"Transformation.eigenvector", "Transformation.diagonalize"})
    ctx.do(SI.rule_svd1)
    ctx.do(NPR.rule_neg0, ["geometry_tools/utils/numerical.py", "geometry_tools/utils/core.py"])
    ctx.do(MI.rule_eigh2, ["geometry_tools/projective.py", "geometry_tools/utils/core.py", "geometry_tools/hyperbolic.py"])
    ctx.do(MI.rule_sgn1, ["geometry_tools/projective.py", "geometry_tools/utils/core.py"])
    ctx.do(DT.rule_cx1, ["geometry_tools/projective.py"])
    ctx.do(DT.rule_lk3, ["geometry_tools/projective.py", "geometry_tools/utils/core.py"])
    ctx.do(SH.rule_hom1, parts=("proj", "proj-cx"), min_proved=6)
    ctx.do(u1, ENTRIES, min_functions=15)
    ctx.r.assume("affine maps, translations, intersections and eigenvectors "
                 "are numerical clauses and not decided")
