"""C01 -- model coordinates consistent, one metric (G1, D1, I1, U1)."""
from ..rules import numpy_rules as NPR
from ..rules import degree_rules as DG
from ..rules import misc_rules as MI
from ..rules import dtype_rules as DT
from ..rules import hyp_rules as H
from ..rules import chart_rules as C
from ..rules import cache_rules as CA
from ..rules import shape_rules as SH
from ..rules import sibling_rules as SI
from ..rules import proj_rules as PR
from ..rules.common import u1, n1

ENTRIES = [
    (H.HYP, "Point.__init__"), (H.HYP, "Point.coords"),
    (H.HYP, "Point.distance"), (H.HYP, "get_point"),
    (H.HYP, "Point.poincare_coords"), (H.HYP, "Point.halfspace_coords"),
    (H.HYP, "Point.hyperboloid_coords"),
    (H.HYP, "HyperbolicObject.kleinian_coords"),
    (H.HYP, "HyperbolicObject.coords"),
]


def run(ctx):
    ctx.do(NPR.rule_putmask1, ["geometry_tools/hyperbolic.py", "geometry_tools/projective.py", "geometry_tools/complex_projective.py", "geometry_tools/utils/core.py"])
    ctx.do(DT.rule_lk4)
    ctx.do(H.rule_g1)
    ctx.do(H.rule_d1)
    ctx.do(H.rule_i1)
    ctx.do(C.rule_chart_slot)
    ctx.do(n1, ["geometry_tools/hyperbolic.py", "geometry_tools/projective.py"], scope=ctx.scope(ENTRIES))
    ctx.do(CA.rule_c2, "ProjectiveObject", scope=ctx.scope(ENTRIES))
    ctx.do(H.rule_h2)
    ctx.do(H.rule_h1, scope=ctx.scope(ENTRIES))
    ctx.do(SH.rule_sh2, only={"kleinian_to_poincare", "poincare_to_kleinian", "poincare_to_halfspace", "halfspace_to_poincare", "hyperboloid_coords", "apply_bilinear", "normsq", "normalize"})
    ctx.do(SI.rule_pt1, [SI.HYP], scope=ctx.scope(ENTRIES))
    ctx.do(SH.rule_sh5, only={"Point.coords", "Point.distance"})
    ctx.do(SH.rule_hom1, parts=("hyp",), only={"Point.coords", "Point.distance", "Point.kleinian_coords", "Point.poincare_coords", "Point.halfspace_coords", "Point.hyperboloid_coords", "None.kleinian_coords", "None.hyperboloid_coords"}, min_proved=8)
    ctx.do(PR.rule_fr1, setter=False)
    ctx.do(SI.rule_zd1)
    ctx.do(DG.rule_hd1)
    ctx.do(MI.rule_enum1, [H.HYP])
    ctx.do(MI.rule_rng1, only={"Point.distance"})
    ctx.do(MI.rule_tol1)
    ctx.do(MI.rule_zd2)
    ctx.do(DT.rule_lk1, [H.HYP], scope=ctx.scope(ENTRIES))
    ctx.do(SH.rule_ax1, [SH.CORE, H.HYP], scope=ctx.scope(ENTRIES))
    ctx.do(u1, ENTRIES, min_functions=15)
    ctx.r.assume("round-trip equality, agreement of the closed-form metrics, "
                 "symmetry and the triangle inequality are numerical and not "
                 "decided")
