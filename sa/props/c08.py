"""C08 -- Coxeter representations (T1, DU, U1)."""
from ..rules import dtype_rules as DT
from ..rules import dtype_rules as D
from ..rules import rep_rules as R
from ..rules import cache_rules as CA
from ..rules import sibling_rules as SI
from ..rules import misc_rules as MI
from ..rules import numpy_rules as NPR
from ..rules import cox_rules as CX
from ..rules import fsa_rules as FS
from ..rules.common import u1, n1

COX = R.COX
ENTRIES = [(COX, "CoxeterGroup." + m) for m in (
    "bilinear_form", "cartan_representation", "geometric_representation",
    "canonical_representation", "cartan_matrix", "tits_vinberg_rep",
    "hyperbolic_rep")] + [(COX, "CoxeterGroup.__init__"),
                          (COX, "TriangleGroup.__init__"),
                          ("geometry_tools/hyperbolic.py",
                           "HyperbolicRepresentation.isometries")]


def run(ctx):
    ctx.do(D.rule_t1, ENTRIES,
              "the cosine matrix becomes an object array and every Coxeter "
              "representation constructor raises TypeError")
    ctx.do(R.rule_dual)
    ctx.do(CX.rule_diag1)
    ctx.do(NPR.rule_nulldir1)
    ctx.do(NPR.rule_cmpstmt1, ["geometry_tools/utils/core.py", "geometry_tools/coxeter.py"])
    ctx.do(D.rule_astype1, ["geometry_tools/coxeter.py"])
    ctx.do(FS.rule_iter1, ["geometry_tools/coxeter.py"])
    ctx.do(n1, ["geometry_tools/coxeter.py"], lookup_rels=("geometry_tools/coxeter.py",))
    ctx.do(CA.rule_c2, "CoxeterGroup")
    ctx.do(CA.rule_cls1, "CoxeterGroup")
    ctx.do(SI.rule_pm1, ["geometry_tools/coxeter.py", "geometry_tools/utils/core.py"])
    ctx.do(CA.rule_query_purity, "CoxeterGroup", [
        "bilinear_form", "cartan_representation", "geometric_representation",
        "canonical_representation", "cartan_matrix", "tits_vinberg_rep",
        "hyperbolic_rep", "automaton", "standard_subgroup"])
    ctx.do(SI.rule_pa1)
    ctx.do(SI.rule_inf1)
    ctx.do(MI.rule_own1)
    ctx.do(SI.rule_eigh1)
    ctx.do(MI.rule_pair1)
    ctx.do(MI.rule_nonneg1, ["geometry_tools/utils/core.py", "geometry_tools/coxeter.py"])
    ctx.do(MI.rule_eigh2, ["geometry_tools/utils/core.py", "geometry_tools/coxeter.py"])
    ctx.do(DT.rule_lk2, ["geometry_tools/coxeter.py"])
    ctx.do(SI.rule_cm1)
    ctx.do(u1, ENTRIES, min_functions=15)
    ctx.r.assume("involutions, braid relations, form preservation and "
                 "triangle angles are numerical and not decided")
