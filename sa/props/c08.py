"""C08 -- Coxeter representations (T1, DU, U1)."""
from ..rules import dtype_rules as D
from ..rules import rep_rules as R
from ..rules import cache_rules as CA
from ..rules.common import u1, n1

COX = R.COX
ENTRIES = [(COX, "CoxeterGroup." + m) for m in (
    "bilinear_form", "cartan_representation", "geometric_representation",
    "canonical_representation", "cartan_matrix", "tits_vinberg_rep",
    "hyperbolic_rep")] + [(COX, "CoxeterGroup.__init__"),
                          (COX, "TriangleGroup.__init__")]


def run(ctx):
    D.rule_t1(ctx, ENTRIES,
              "the cosine matrix becomes an object array and every Coxeter "
              "representation constructor raises TypeError")
    R.rule_dual(ctx)
    n1(ctx, ["geometry_tools/coxeter.py"], lookup_rels=("geometry_tools/coxeter.py",))
    CA.rule_c2(ctx, "CoxeterGroup")
    CA.rule_query_purity(ctx, "CoxeterGroup", [
        "bilinear_form", "cartan_representation", "geometric_representation",
        "canonical_representation", "cartan_matrix", "tits_vinberg_rep",
        "hyperbolic_rep", "automaton", "standard_subgroup"])
    u1(ctx, ENTRIES, min_functions=15)
    ctx.r.assume("involutions, braid relations, form preservation and "
                 "triangle angles are numerical and not decided")
