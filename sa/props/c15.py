"""C15 -- reflections, walls, fixed points (R1, U1). Narrow."""
from ..rules import misc_rules as MI
from ..rules import dtype_rules as DT
from ..rules import hyp_rules as H
from ..rules import cache_rules as CA
from ..rules import sibling_rules as SI
from ..rules import shape_rules as SH
from ..rules.common import u1

ENTRIES = [(H.HYP, q) for q in (
    "Subspace.reflection_across", "Hyperplane.from_reflection",
    "Geodesic.from_reflection", "Hyperplane.__init__",
    "Hyperplane._compute_ideal_basis", "Isometry.fixed_point",
    "Isometry.fixed_point_pair", "Isometry.axis", "Isometry._fixpoint_data",
    "spacelike_to")]


def run(ctx):
    ctx.do(DT.rule_contra1, ["geometry_tools/hyperbolic.py"])
    ctx.do(H.rule_r1)
    ctx.do(SI.rule_eig1, only={"Hyperplane.from_reflection", "Isometry._fixpoint_data"})
    ctx.do(SH.rule_ax1, [SH.CORE, H.HYP], scope=ctx.scope(ENTRIES))
    ctx.do(SI.rule_ref1)
    ctx.do(MI.rule_nanflow1)
    ctx.do(SI.rule_flip1)
    ctx.do(MI.rule_sgn1, [H.HYP, "geometry_tools/utils/core.py"])
    ctx.do(DT.rule_cx1, [H.HYP])
    ctx.do(DT.rule_lk1, [H.HYP], scope=ctx.scope(ENTRIES))
    ctx.do(CA.rule_c2, "ProjectiveObject", scope=ctx.scope(ENTRIES))
    ctx.do(SI.rule_mean1, [SI.HYP], scope=ctx.scope(ENTRIES))
    ctx.do(SH.rule_sh5, only={"Subspace._data_with_dual", "Subspace.spacelike_complement", "Subspace.reflection_across", "Isometry.fixed_point_pair", "Isometry.fixed_point", "Isometry.axis", "Hyperplane.from_reflection", "Geodesic.from_reflection"})
    ctx.do(SH.rule_hom1, parts=("hyp",), only={"Subspace.spacelike_complement", "Subspace.reflection_across", "Hyperplane.reflection_across", "Hyperplane.from_reflection", "Geodesic.from_reflection", "Isometry.fixed_point_pair", "Isometry.fixed_point", "Isometry.axis"})
    ctx.do(u1, ENTRIES, min_functions=15)
    ctx.r.assume("involutivity, fixed sets and the ordering of fixed points "
                 "are numerical and not decided")
