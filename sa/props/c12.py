"""C12 -- independence of packaging and of homogeneous rescaling (T1, H1)."""
from ..rules import misc_rules as MI
from ..rules import numpy_rules as NP
from ..rules import dtype_rules as D
from ..rules import cache_rules as CA
from ..rules import hyp_rules as H
from ..rules import sibling_rules as SI
from ..rules import degree_rules as DG
from ..rules import shape_rules as SH
from ..rules.common import u1

CORE = D.CORE_REL
HYP = H.HYP
ENTRIES = [
    (CORE, "rotation_matrix"), (CORE, "array_like"), (CORE, "zeros"),
    (CORE, "identity"), (CORE, "number"), (CORE, "ones"),
    (HYP, "Isometry.standard_rotation"), (HYP, "Isometry.elliptic"),
    (HYP, "sl2_iso"), (HYP, "IdealPoint.from_angle"),
    (HYP, "Polygon.regular_polygon"),
    ("geometry_tools/coxeter.py", "CoxeterGroup.bilinear_form"),
    ("geometry_tools/projective.py", "projective_coords"),
]


def run(ctx):
    ctx.do(D.rule_lk4)
    ctx.do(D.rule_cast1, ["geometry_tools/utils/core.py"])
    ctx.do(D.rule_raw1)
    ctx.do(D.rule_astype1, ["geometry_tools/coxeter.py", "geometry_tools/utils/core.py", "geometry_tools/hyperbolic.py", "geometry_tools/projective.py"])
    ctx.do(NP.rule_viewaug1, ["geometry_tools/utils/core.py"])
    ctx.do(D.rule_t1, ENTRIES,
              "rotations, sl2_iso(list), regular_polygon and the README "
              "examples then produce object arrays on which inverse / "
              "eigenvalue / trigonometric routines fail")
    ctx.do(H.rule_h1)
    ctx.do(H.rule_h2)
    ctx.do(D.rule_t2)
    ctx.do(NP.rule_np2)
    ctx.do(MI.rule_lru1, [HYP, "geometry_tools/projective.py", CORE, "geometry_tools/complex_projective.py"])
    ctx.do(MI.rule_np3, [HYP, "geometry_tools/projective.py", CORE, "geometry_tools/coxeter.py", "geometry_tools/lie/core.py"])
    ctx.do(D.rule_lk2, [HYP, "geometry_tools/projective.py", "geometry_tools/complex_projective.py", "geometry_tools/coxeter.py", CORE])
    ctx.do(CA.rule_query_purity, "CoxeterGroup", ["bilinear_form", "cartan_matrix", "tits_vinberg_rep"])
    ctx.do(D.rule_t3, [CORE, HYP, 'geometry_tools/projective.py'])
    ctx.do(D.rule_lk1, [HYP, 'geometry_tools/projective.py', 'geometry_tools/complex_projective.py', 'geometry_tools/representation.py'])
    ctx.do(D.rule_lk3, [HYP, 'geometry_tools/projective.py', 'geometry_tools/complex_projective.py'])
    ctx.do(SI.rule_of1)
    ctx.do(DG.rule_hd1)
    ctx.do(CA.rule_c2, "ProjectiveObject")
    ctx.do(SH.rule_sh5, only={"Point.unit_tangent_towards", "Point.distance", "Point.origin_to", "TangentVector.origin_to", "None.sl2_iso"})
    ctx.do(SH.rule_hom1, parts=("hyp", "proj"), min_proved=30)
    ctx.do(u1, ENTRIES + [
        (HYP, "Point.unit_tangent_towards"), (HYP, "Point.distance"),
        (HYP, "Point.origin_to"), (HYP, "TangentVector.origin_to"),
        ("geometry_tools/utils/types.py", "inexact_type"),
        ("geometry_tools/utils/types.py", "is_linalg_type")],
        min_functions=15)
    ctx.r.assume("numerical equality across packagings and scale invariance "
                 "of arbitrary formulas are not decided")
