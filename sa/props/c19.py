"""C19 -- what is drawn is the object (DR1, DR2, DR3, U1)."""
from ..rules import misc_rules as MI
from ..rules import draw_rules as D
from ..rules import sibling_rules as SI
from ..rules import cache_rules as CA
from ..rules.common import u1

DR = D.DRAW
ENTRIES = [
    (DR, "ProjectiveDrawing.draw_point"), (DR, "ProjectiveDrawing.draw_curve"),
    (DR, "ProjectiveDrawing.draw_proj_segment"),
    (DR, "ProjectiveDrawing.draw_line"), (DR, "ProjectiveDrawing.draw_polygon"),
    (DR, "ProjectiveDrawing.preprocess_object"),
    (DR, "ProjectiveDrawing3D.draw_point"),
    (DR, "ProjectiveDrawing3D.draw_curve"),
    (DR, "ProjectiveDrawing3D.preprocess_object"),
    (DR, "HyperbolicDrawing.draw_geodesic"),
    (DR, "HyperbolicDrawing.draw_point"),
    (DR, "HyperbolicDrawing.draw_polygon"),
    (DR, "HyperbolicDrawing.draw_horosphere"),
    (DR, "HyperbolicDrawing.draw_horoarc"),
    (DR, "HyperbolicDrawing.get_polygon_arcpath"),
    (DR, "HyperbolicDrawing.get_circle_arcpath"),
    (DR, "HyperbolicDrawing.get_straight_arcpath"),
    (DR, "HyperbolicDrawing.preprocess_object"),
    (DR, "CP1Drawing.draw_disk"), (DR, "CP1Drawing.draw_point"),
    (DR, "CP1Drawing.preprocess_object"),
]


def run(ctx):
    ctx.do(MI.rule_homdiv1)
    ctx.do(MI.rule_enum1, ["geometry_tools/hyperbolic.py", "geometry_tools/drawtools.py"])
    ctx.do(MI.rule_sgn1, ["geometry_tools/hyperbolic.py", "geometry_tools/utils/core.py"])
    ctx.do(MI.rule_rng1, only={"circle_angles"})
    ctx.do(D.rule_dr1)
    ctx.do(D.rule_curax1)
    ctx.do(D.rule_dr2)
    ctx.do(D.rule_dr3)
    ctx.do(D.rule_dr4)
    ctx.do(D.rule_nan1)
    ctx.do(SI.rule_k4)
    ctx.do(CA.rule_der1, DR, "Drawing")
    ctx.do(CA.rule_c2, "Drawing")
    ctx.do(u1, ENTRIES, min_functions=30)
    ctx.r.assume("that the path visits the vertices along geodesics (arc "
                 "reversal heuristic, radius threshold) needs values and is "
                 "not decided; matplotlib's Arc/Path.arc take degrees "
                 "(frozen API knowledge)")
