"""C13 -- constructed isometries, tangent vectors, regular polygons
(T1, U1, RC). Narrow: can execute + row convention."""
from ..rules import numpy_rules as NP
from ..rules import misc_rules as MI
from ..rules import dtype_rules as D
from ..rules import cache_rules as CA
from ..rules import hyp_rules as H
from ..rules import degree_rules as DG
from ..rules import shape_rules as SH
from ..rules.common import u1

HYP = H.HYP
ENTRIES = [(HYP, q) for q in (
    "Point.origin_to", "TangentVector.origin_to", "TangentVector.isometry_to",
    "TangentVector.point_along", "TangentVector.angle",
    "TangentVector.normalized", "Point.unit_tangent_towards",
    "Polygon.regular_polygon", "Polygon.regular_surface_polygon",
    "genus_g_surface_radius", "regular_polygon_radius",
    "polygon_interior_angle", "TangentVector.get_base_tangent",
    "Polygon.get_vertices", "Point.get_origin",
    "timelike_to", "spacelike_to")]


def run(ctx):
    ctx.do(H.rule_acos1)
    ctx.do(D.rule_t1, ENTRIES,
              "regular_polygon -> standard_rotation(2*pi/n) -> "
              "rotation_matrix -> array_like(like=<float>) yields an object "
              "array and the front-page example raises")
    ctx.do(H.rule_row_convention)
    ctx.do(MI.rule_form1)
    ctx.do(MI.rule_rc2, [HYP, "geometry_tools/projective.py"])
    ctx.do(H.rule_g2)
    ctx.do(H.rule_odd1)
    ctx.do(DG.rule_hd1)
    ctx.do(DG.rule_hd1_attr)
    ctx.do(NP.rule_ar1, [HYP])
    ctx.do(MI.rule_lru1, [HYP])
    ctx.do(MI.rule_ori1)
    ctx.do(MI.rule_rng1, only={"polygon_interior_angle", "TangentVector.angle",
                               "regular_polygon_radius"})
    ctx.do(D.rule_lk1, [HYP], scope=ctx.scope(ENTRIES))
    ctx.do(CA.rule_c2, "ProjectiveObject", scope=ctx.scope(ENTRIES))
    ctx.do(SH.rule_hom1, parts=("hyp",), only={
        "TangentVector.normalized", "TangentVector.angle",
        "TangentVector.point_along", "TangentVector.origin_to",
        "TangentVector.isometry_to", "Point.origin_to",
        "Point.unit_tangent_towards", "None.timelike_to",
        "None.spacelike_to", "TangentVector._compute_aux_data"})
    ctx.do(SH.rule_sh5, only={"TangentVector.normalized", "TangentVector.angle", "TangentVector.point_along", "TangentVector.origin_to", "TangentVector.isometry_to", "Point.origin_to", "Point.unit_tangent_towards", "Point.get_origin", "TangentVector.get_base_tangent"})
    ctx.do(u1, ENTRIES, min_functions=15)
    ctx.r.assume("every numerical clause (origin -> p, distances along "
                 "geodesics, law of cosines, polygon angles) is not decided")
