"""C14 -- circle and sphere parameters (X1, X2, U1). Narrow."""
from ..rules import misc_rules as MI
from ..rules import hyp_rules as H
from ..rules import cache_rules as CA
from ..rules import shape_rules as S
from ..rules import sibling_rules as SI
from ..rules import proj_rules as PR
from ..rules import dtype_rules as DT
from ..rules.common import u1

ENTRIES = [(H.HYP, q) for q in (
    "Geodesic.circle_parameters", "Segment.circle_parameters",
    "HorosphereArc.circle_parameters", "BoundaryArc.circle_parameters",
    "Subspace.sphere_parameters", "Subspace.boundary_sphere_parameters",
    "Horosphere.sphere_parameters", "Segment._compute_aux_data",
    "Segment.ideal_endpoint_coords", "Subspace.ideal_basis_coords")]


def run(ctx):
    ctx.do(MI.rule_homdiv1)
    ctx.do(H.rule_x1x2)
    ctx.do(S.rule_sh2, only={"short_arc", "right_to_left", "arc_include", "circle_angles", "sphere_through", "circle_through", "sphere_inversion", "kleinian_to_poincare", "poincare_to_halfspace", "Segment._compute_aux_data"})
    ctx.do(S.rule_ax1, [S.CORE, H.HYP], scope=ctx.scope(ENTRIES))
    ctx.do(SI.rule_x3)
    ctx.do(SI.rule_mean2)
    ctx.do(MI.rule_enum1, [H.HYP, "geometry_tools/drawtools.py"])
    ctx.do(PR.rule_s2)
    ctx.do(DT.rule_lk1, [H.HYP], scope=ctx.scope(ENTRIES))
    ctx.do(CA.rule_c2, "ProjectiveObject", scope=ctx.scope(ENTRIES))
    ctx.do(S.rule_sh5, only=S.SH5_C14)
    ctx.do(S.rule_hom1, parts=("hyp",), only=set(S.SH5_C14) | {"Segment._compute_aux_data"})
    ctx.do(SI.rule_mean1, [SI.HYP], scope=ctx.scope(ENTRIES))
    ctx.do(SI.rule_pt1, [SI.HYP], scope=ctx.scope(ENTRIES))
    ctx.do(u1, ENTRIES, min_functions=15)
    ctx.r.assume("that centre/radius/angles describe the true geodesic, "
                 "orthogonality to the boundary and horosphere tangency are "
                 "numerical and not decided")
