"""C20 -- CP^1 points, disks, Moebius maps (O1, K1, K2, U1)."""
from ..rules import numpy_rules as NPR
from ..rules import cp1_rules as R
from ..rules import dtype_rules as DTY
from ..rules import cache_rules as CA
from ..rules import sibling_rules as SI
from ..rules import degree_rules as DG
from ..rules import shape_rules as SH
from ..rules.common import u1

REL = R.CP_REL
ENTRIES = [
    (REL, "CP1Point.__init__"), (REL, "CP1Point.spherical_coords"),
    (REL, "CP1Disk.__init__"), (REL, "CP1Disk._compute_proj_data"),
    (REL, "CP1Disk.circle_parameters"), (REL, "CP1Disk.center_inside"),
    (REL, "CP1Disk.boundary_points"), (REL, "CP1Disk.interior_point"),
    (REL, "CP1Disk.contains"), (REL, "CP1Disk.intersects"),
    (REL, "CP1Disk.complement"), (REL, "CP1Disk.inversion"),
    (REL, "CP1Disk.fs_diameter"), (REL, "CP1Disk.fs_center"),
    (REL, "projective_to_spherical"), (REL, "spherical_to_projective"),
    (REL, "to_standard_triple"),
]


def run(ctx):
    ctx.do(NPR.rule_putmask1, ["geometry_tools/hyperbolic.py", "geometry_tools/projective.py", "geometry_tools/complex_projective.py", "geometry_tools/utils/core.py"])
    ctx.do(R.rule_o1, [REL, "geometry_tools/utils/cp1.py"])
    ctx.do(R.rule_k1, REL)
    ctx.do(R.rule_k2)
    ctx.do(DTY.rule_emath1, [REL])
    ctx.do(SI.rule_k3)
    ctx.do(DG.rule_hd2)
    ctx.do(SI.rule_pt1, [SI.CP])
    ctx.do(CA.rule_c2, "ProjectiveObject", scope=ctx.scope(ENTRIES))
    ctx.do(SH.rule_sh6)
    ctx.do(SH.rule_hom1, parts=("cp1",), min_proved=6)
    ctx.do(CA.rule_query_purity, "CP1Disk", [
        "complement", "inversion", "fs_center", "fs_diameter",
        "center_inside", "circle_parameters", "contains", "intersects",
        "boundary_points", "interior_point"])
    ctx.do(SI.rule_pm1, ["geometry_tools/complex_projective.py"])
    ctx.do(u1, ENTRIES, min_functions=20)
    ctx.r.assume("stereographic formulas, Moebius images, double complement "
                 "and Fubini-Study quantities are numerical and not decided")
