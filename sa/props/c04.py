"""C04 -- a composite behaves like an array of its units (SH1, S1, RO, U1)."""
from ..rules import numpy_rules as NP
from ..rules import dtype_rules as DT
from ..rules import proj_rules as P
from ..rules import cache_rules as CA
from ..rules import shape_rules as S
from ..rules import sibling_rules as SI
from ..rules.common import u1

PROJ = P.PROJ
CORE = S.CORE
ENTRIES = [
    (CORE, "matrix_product"), (CORE, "expand_unit_axes"),
    (CORE, "squeeze_excess"), (CORE, "broadcast_match"),
    (PROJ, "Transformation.apply"), (PROJ, "Transformation._apply_to_data"),
    (PROJ, "ProjectiveObject.reshape"),
    (PROJ, "ProjectiveObject.flatten_to_unit"),
    (PROJ, "ProjectiveObject.__getitem__"), (PROJ, "ProjectiveObject.__len__"),
    (PROJ, "ProjectiveObject._construct_from_object"),
    (PROJ, "ProjectiveObject.shape"),
]

HYP = "geometry_tools/hyperbolic.py"
# the "vectorised geometry" the property names (anchors)
GEOMETRY = [(HYP, q) for q in (
    "Point.coords", "Point.distance", "Point.origin_to",
    "Segment._compute_aux_data", "Geodesic.circle_parameters",
    "Segment.circle_parameters", "HorosphereArc.circle_parameters",
    "Isometry._fixpoint_data", "Isometry.fixed_point",
    "Isometry.fixed_point_pair", "TangentVector.origin_to",
    "Horosphere.intersect_geodesic", "Polygon.regular_polygon")]


def run(ctx):
    ctx.do(NP.rule_putmask1, ["geometry_tools/hyperbolic.py", "geometry_tools/projective.py", "geometry_tools/complex_projective.py", "geometry_tools/utils/core.py"])
    ctx.do(S.rule_sh1)
    ctx.do(S.rule_sh2)
    ctx.do(S.rule_sh3)
    ctx.do(S.rule_sh5)
    ctx.do(S.rule_sh7)
    ctx.do(CA.rule_c2, "ProjectiveObject", scope=ctx.scope(ENTRIES + GEOMETRY))
    ctx.do(SI.rule_mean1, [SI.HYP], min_sites=3)
    # stacking a list of objects must keep every member's values: no buffer
    # typed like one member and filled with the others
    ctx.do(DT.rule_lk1, [PROJ], scope=ctx.scope(ENTRIES))
    ctx.do(S.rule_ax1, [CORE, "geometry_tools/hyperbolic.py", PROJ])
    ctx.do(NP.rule_mk2, [CORE, "geometry_tools/hyperbolic.py", PROJ, "geometry_tools/lie/core.py", "geometry_tools/complex_projective.py"])
    ctx.do(P.rule_s1, ops=[(PROJ, "ProjectiveObject.reshape"),
                        (PROJ, "ProjectiveObject.flatten_to_unit"),
                        (PROJ, "ProjectiveObject._construct_from_object"),
                        (PROJ, "Transformation.apply")])
    ctx.do(P.rule_roles, with_inverse=False)
    ctx.do(u1, ENTRIES + GEOMETRY, min_functions=10)
    ctx.r.assume("that the values at each index equal the per-unit result "
                 "of the vectorised geometry is numerical and not decided; "
                 "NumPy shape semantics of expand_dims/squeeze/tile/@/.T are "
                 "mirrored by hand in sa/shape.py")
