"""C06 -- automaton-driven enumeration (M1, M2, M3, U1)."""
from ..rules import misc_rules as MI
from ..rules import rep_rules as RR
from ..rules import enum_rules as E
from ..rules import fsa_rules as F
from ..rules import dtype_rules as DT
from ..rules import cache_rules as CA
from ..rules import sibling_rules as SI
from ..rules.common import u1, n1

REP = E.REP
ENTRIES = [
    (REP, "Representation.automaton_accepted"),
    (REP, "Representation._automaton_accepted"),
    (REP, "Representation.freely_reduced_elements"),
    (REP, "Representation.free_words_of_length"),
    (REP, "Representation.free_words_less_than"),
    ("geometry_tools/automata/fsa.py", "free_automaton"),
    ("geometry_tools/automata/fsa.py", "FSA.enumerate_words"),
    ("geometry_tools/automata/fsa.py", "FSA.enumerate_fixed_length_paths"),
]


def run(ctx):
    # end_state enumerations read the incoming view: every edit keeps the three views together
    ctx.do(SI.rule_v2_rename)
    ctx.do(E.rule_memo_own1)
    ctx.do(E.rule_m1)
    ctx.do(E.rule_m2)
    ctx.do(E.rule_m3)
    ctx.do(n1, ["geometry_tools/representation.py", "geometry_tools/automata/fsa.py"])
    ctx.do(CA.rule_c2, "Representation", scope=ctx.scope(ENTRIES))
    ctx.do(CA.rule_cls1, "Representation")
    ctx.do(F.rule_v1)
    ctx.do(DT.rule_lk1, ["geometry_tools/representation.py"], scope=ctx.scope(ENTRIES))
    ctx.do(E.rule_m4)
    ctx.do(SI.rule_fw1)
    ctx.do(MI.rule_m5)
    ctx.do(SI.rule_bfs2)
    ctx.do(RR.rule_wp1)
    ctx.do(u1, ENTRIES, min_functions=10)
    ctx.r.assume("equality of the returned word set with the automaton's "
                 "language, free-group uniqueness and memo reuse across "
                 "calls with different options are not decided")
