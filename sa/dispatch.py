"""Partial evaluation of an enum dispatch.

`resolve(project, cls, method, {param: member})` specialises a method to one
member of an enumeration (here hyperbolic.Model) bound to one parameter and
follows the statements that the specialised run executes: `if model ==
Model.X` chains in any arrangement, early returns, assignments of bound
methods to locals (`accessor = self.x_coords`), helper methods of the same
object that return a bound method or None, `getattr(self, "name")`, literal
dispatch tables walked by a `for` loop, delegation to the same method of a
base class, and `try: <delegate> except GeometryError: <fallback>`.

The outcome is one of

  ("call", name, call_node, function)   the run returns self.<name>(...)
  ("value", kind, payload)              the run returns a bound method / None
  ("raise",)                            the run raises
  None                                  not followed (caller: not judged)

Nothing is executed: the walk is syntax-directed over the AST with a small
environment of abstract values."""
import ast


class _Unknown(Exception):
    pass


BOUND, NONE, MEMBER, STR, SELF, EXPR, CALLED, CLS = (
    "bound", "none", "member", "str", "self", "expr", "called", "cls")


class Dispatch:
    def __init__(self, project, enum_cls_name, members, same):
        """members: name -> value of the enum; same(a, b): do two member /
        string values denote the same member"""
        self.p = project
        self.enum_name = enum_cls_name
        self.members = members
        self.same = same

    # -- values -----------------------------------------------------------
    def expr(self, e, env, cls):
        if isinstance(e, ast.Constant):
            if e.value is None:
                return (NONE,)
            if isinstance(e.value, str):
                return (STR, e.value)
            return (EXPR, e)
        if isinstance(e, ast.Name):
            if e.id in env:
                return env[e.id]
            c = self._class_named(e.id)
            if c is not None:
                return (CLS, c)
            return (EXPR, e)
        if isinstance(e, ast.Attribute):
            if isinstance(e.value, ast.Name) and e.value.id == self.enum_name \
                    and e.attr in self.members:
                return (MEMBER, self.members[e.attr])
            v = self.expr(e.value, env, cls)
            if v[0] == SELF and self.p.find_method(cls, e.attr) is not None:
                m = self.p.find_method(cls, e.attr)
                if any(ast.unparse(d) == "property"
                       for d in m.node.decorator_list):
                    return (EXPR, e)
                return (BOUND, e.attr, cls)
            if v[0] == CLS and self.p.find_method(v[1], e.attr) is not None:
                return (BOUND, e.attr, v[1], "unbound")
            return (EXPR, e)
        if isinstance(e, ast.Call):
            return self.call(e, env, cls)
        return (EXPR, e)

    def _class_named(self, name):
        for c in self.p.all_classes:
            if c.name == name:
                return c
        return None

    def call(self, e, env, cls):
        # getattr(self, "name")
        if isinstance(e.func, ast.Name) and e.func.id == "getattr" \
                and len(e.args) >= 2:
            o = self.expr(e.args[0], env, cls)
            n = self.expr(e.args[1], env, cls)
            if o[0] == SELF and n[0] == STR:
                if self.p.find_method(cls, n[1]) is not None:
                    return (BOUND, n[1], cls)
                if len(e.args) == 3:
                    return self.expr(e.args[2], env, cls)
                return ("raises",)
            raise _Unknown("getattr with a non-literal name")
        # super().m(...)
        if isinstance(e.func, ast.Attribute) and isinstance(
                e.func.value, ast.Call) and isinstance(
                e.func.value.func, ast.Name) \
                and e.func.value.func.id == "super":
            mro = self.p.mro(cls)
            owner = env.get("__owner__")
            start = mro.index(owner) + 1 if owner in mro else 1
            for k in mro[start:]:
                if e.func.attr in k.methods:
                    return self._invoke(k.methods[e.func.attr], list(e.args),
                                        e.keywords, env, cls, k, e)
            raise _Unknown("super() target not found")
        fv = self.expr(e.func, env, cls)
        if fv[0] == BOUND:
            target_cls = fv[2]
            m = self.p.find_method(target_cls, fv[1])
            args = list(e.args)
            if len(fv) > 3:                 # Class.method(self, ...)
                if not args:
                    raise _Unknown("unbound call without self")
                args = args[1:]
                owner = target_cls
                # delegation to a base class: specialise it
                return self._invoke(m, args, e.keywords, env, cls, owner, e)
            # a helper of the object that takes the dispatch value: follow it
            avals = [self.expr(a, env, cls) for a in args] + [
                self.expr(k.value, env, cls) for k in e.keywords if k.arg]
            if any(v[0] in (MEMBER, STR) for v in avals) \
                    and not fv[1].endswith("_coords"):
                owner = next(k for k in self.p.mro(cls)
                             if fv[1] in k.methods)
                return self._invoke(m, args, e.keywords, env, cls, owner, e)
            return (CALLED, fv[1], e)
        return (EXPR, e)

    def _invoke(self, m, args, keywords, env, cls, owner, callnode):
        if env.get("__depth__", 0) > 6:
            raise _Unknown("dispatch nesting too deep")
        params = [a.arg for a in m.node.args.args]
        new = {"__depth__": env.get("__depth__", 0) + 1, "__owner__": owner}
        if params:
            new[params[0]] = (SELF,)
        for pname, a in zip(params[1:], args):
            new[pname] = self.expr(a, env, cls)
        for k in keywords:
            if k.arg and k.arg in params:
                new[k.arg] = self.expr(k.value, env, cls)
        # defaults
        defaults = m.node.args.defaults
        for pname, d in zip(params[len(params) - len(defaults):], defaults):
            new.setdefault(pname, self.expr(d, {}, cls))
        out = self.block(m.node.body, new, cls)
        if out is None:
            return (NONE,)
        if out[0] == "return":
            v = out[1]
            if v[0] == CALLED:
                # the callee's own dispatch result is what the caller returns
                return ("result", v[1], v[2], v[3] if len(v) > 3 else m)
            return v
        if out[0] == "raise":
            return ("raises",)
        raise _Unknown("callee outcome")

    # -- tests ------------------------------------------------------------
    def test(self, t, env, cls):
        """-> True / False / None"""
        if isinstance(t, ast.UnaryOp) and isinstance(t.op, ast.Not):
            v = self.test(t.operand, env, cls)
            return None if v is None else not v
        if isinstance(t, ast.BoolOp):
            vals = [self.test(v, env, cls) for v in t.values]
            if isinstance(t.op, ast.And):
                if any(v is False for v in vals):
                    return False
                return True if all(v is True for v in vals) else None
            if any(v is True for v in vals):
                return True
            return False if all(v is False for v in vals) else None
        if isinstance(t, ast.Compare) and len(t.ops) == 1:
            a = self.expr(t.left, env, cls)
            b = self.expr(t.comparators[0], env, cls)
            op = t.ops[0]
            if isinstance(op, (ast.Eq, ast.NotEq)):
                if a[0] in (MEMBER, STR) and b[0] in (MEMBER, STR):
                    v = self.same(a[1], b[1])
                    return v if isinstance(op, ast.Eq) else not v
                return None
            if isinstance(op, (ast.Is, ast.IsNot)):
                if NONE in (a[0], b[0]):
                    o = b if a[0] == NONE else a
                    if o[0] == NONE:
                        v = True
                    elif o[0] in (BOUND, MEMBER, STR, SELF, CALLED):
                        v = False
                    else:
                        return None
                    return v if isinstance(op, ast.Is) else not v
                return None
            if isinstance(op, (ast.In, ast.NotIn)) and a[0] in (MEMBER, STR) \
                    and isinstance(t.comparators[0], (ast.Tuple, ast.List,
                                                      ast.Set)):
                items = [self.expr(x, env, cls)
                         for x in t.comparators[0].elts]
                if all(i[0] in (MEMBER, STR) for i in items):
                    v = any(self.same(a[1], i[1]) for i in items)
                    return v if isinstance(op, ast.In) else not v
        return None

    # -- statements -------------------------------------------------------
    def block(self, stmts, env, cls):
        """-> ("return", value) | ("raise",) | None (falls through)"""
        for s in stmts:
            out = self.stmt(s, env, cls)
            if out is not None:
                return out
        return None

    def stmt(self, s, env, cls):
        if isinstance(s, ast.Return):
            if s.value is None:
                return ("return", (NONE,))
            v = self.expr(s.value, env, cls)
            if v[0] == "raises":
                return ("raise",)
            if v[0] == "result":
                return ("return", (CALLED, v[1], v[2], v[3]))
            return ("return", v)
        if isinstance(s, ast.Raise):
            return ("raise",)
        if isinstance(s, ast.Assign) and len(s.targets) == 1:
            t = s.targets[0]
            v = self.expr(s.value, env, cls)
            if v[0] == "raises":
                return ("raise",)
            if isinstance(t, ast.Name):
                env[t.id] = v
            return None
        if isinstance(s, ast.If):
            v = self.test(s.test, env, cls)
            if v is True:
                return self.block(s.body, env, cls)
            if v is False:
                return self.block(s.orelse, env, cls)
            # undecided test: both arms must agree
            e1, e2 = dict(env), dict(env)
            o1 = self.block(s.body, e1, cls)
            o2 = self.block(s.orelse, e2, cls)
            if o1 is None and o2 is None:
                for k in set(e1) | set(e2):
                    if e1.get(k) != e2.get(k):
                        env[k] = (EXPR, None)
                    else:
                        env[k] = e1[k]
                return None
            if o1 == o2:
                return o1
            raise _Unknown(f"test not decided: {ast.unparse(s.test)[:60]}")
        if isinstance(s, ast.Try):
            e0 = dict(env)
            out = self.block(s.body, env, cls)
            if out is not None and out[0] == "raise" and s.handlers:
                h = s.handlers[0]
                env.clear()
                env.update(e0)
                if h.name:
                    env[h.name] = (EXPR, None)
                return self.block(h.body, env, cls)
            if out is None:
                out = self.block(s.orelse, env, cls)
            if out is None and s.finalbody:
                return self.block(s.finalbody, env, cls)
            return out
        if isinstance(s, ast.For):
            seq = s.iter
            sv = self.expr(seq, env, cls) if isinstance(seq, ast.Name) \
                else (EXPR, seq)
            node = sv[1] if sv[0] == EXPR else None
            if isinstance(node, ast.Call) and isinstance(
                    node.func, ast.Attribute) and node.func.attr == "items":
                inner = self.expr(node.func.value, env, cls)
                node = inner[1] if inner[0] == EXPR else None
            rows = None
            if isinstance(node, (ast.Tuple, ast.List)):
                rows = [r.elts if isinstance(r, (ast.Tuple, ast.List))
                        else [r] for r in node.elts]
            elif isinstance(node, ast.Dict):
                rows = [[k, v] for k, v in zip(node.keys, node.values)]
            if rows is None:
                raise _Unknown("loop over a non-literal table")
            tg = s.target.elts if isinstance(s.target, ast.Tuple) \
                else [s.target]
            for row in rows:
                if len(row) != len(tg):
                    raise _Unknown("table row arity")
                for t, x in zip(tg, row):
                    if isinstance(t, ast.Name):
                        env[t.id] = self.expr(x, env, cls)
                out = self.block(s.body, env, cls)
                if out is not None:
                    return out
            return self.block(s.orelse, env, cls)
        if isinstance(s, (ast.Expr, ast.Pass, ast.AugAssign, ast.AnnAssign,
                          ast.Assert, ast.Import, ast.ImportFrom)):
            return None
        if isinstance(s, ast.With):
            return self.block(s.body, env, cls)
        raise _Unknown(f"statement {type(s).__name__}")

    # -- entry ------------------------------------------------------------
    def resolve(self, cls, method, bindings):
        """bindings: parameter name -> enum value. -> outcome (see module
        docstring) or None with self.why set"""
        m = self.p.find_method(cls, method)
        if m is None:
            self.why = f"{cls.name}.{method} not found"
            return None
        owner = next(k for k in self.p.mro(cls) if method in k.methods)
        params = [a.arg for a in m.node.args.args]
        env = {"__depth__": 0, "__owner__": owner, params[0]: (SELF,)}
        for pname in params[1:]:
            if pname in bindings:
                env[pname] = (MEMBER, bindings[pname])
            else:
                env[pname] = (EXPR, ast.Name(pname, ast.Load()))
        try:
            out = self.block(m.node.body, env, cls)
        except _Unknown as ex:
            self.why = str(ex)
            return None
        if out is None:
            return ("value", NONE, None)
        if out[0] == "raise":
            return ("raise",)
        v = out[1]
        if v[0] == CALLED:
            return ("call", v[1], v[2], v[3] if len(v) > 3 else m)
        if v[0] in (BOUND, NONE):
            return ("value", v[0], v[1] if len(v) > 1 else None)
        self.why = "returns an expression that is not a handler call"
        return None
