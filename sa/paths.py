"""P5 -- structured path enumeration over a function body.

Compound statements are entered only when they contain something of interest
(a return/raise or a marker node); otherwise they are atomic events.  Loops
are taken zero or one time.  Flags listed in `stable` (parameters that are
never re-assigned) must be tested consistently along a path, and tests are
folded with eval_test under the accumulated assumptions.
"""
import ast

from .flow import eval_test


class Path:
    __slots__ = ("events", "conds", "terminal", "flags")

    def __init__(self, events, conds, terminal, flags):
        self.events = events        # statements executed, in order
        self.conds = conds          # [(test node, outcome bool, owner stmt)]
        self.terminal = terminal    # Return / Raise node or None (fall off)
        self.flags = flags          # accumulated flag assumptions

    def passes(self, pred):
        return any(pred(e) for e in self.events)

    def took(self, pred):
        """outcomes of conditions whose test satisfies pred"""
        return [o for t, o, s in self.conds if pred(t)]


def _interesting(node, markers):
    for n in ast.walk(node):
        if isinstance(n, (ast.Return, ast.Raise)):
            return True
        if any(n is m for m in markers):
            return True
    return False


def _flag_outcomes(test, stable, flags):
    """Possible (outcome, new_flags) pairs for a test."""
    folded = eval_test(test, flags)
    if folded is not None:
        return [(folded, flags)]
    # single stable flag tests refine the assumptions
    for name in stable:
        t = eval_test(test, dict(flags, **{name: True}))
        f = eval_test(test, dict(flags, **{name: False}))
        if name not in flags and t is not None and f is not None and t != f:
            return [(t, dict(flags, **{name: True})),
                    (f, dict(flags, **{name: False}))]
    return [(True, flags), (False, flags)]


def enumerate_paths(fnode, stable=(), markers=(), flags=None, limit=20000):
    out = []
    count = [0]

    def go(body, events, conds, fl):
        if count[0] > limit:
            raise RuntimeError("path limit exceeded")
        if not body:
            return [(events, conds, None, fl)]
        st, rest = body[0], body[1:]
        if isinstance(st, (ast.Return, ast.Raise)):
            count[0] += 1
            return [(events + [st], conds, st, fl)]
        if isinstance(st, ast.If):
            if not _interesting(st, markers):
                # still refine flags? an uninteresting if does not matter
                return go(rest, events + [st], conds, fl)
            res = []
            for outcome, nf in _flag_outcomes(st.test, stable, fl):
                arm = st.body if outcome else st.orelse
                res += go(arm + rest, events, conds + [(st.test, outcome, st)],
                          nf)
            return res
        if isinstance(st, (ast.For, ast.While)):
            if not _interesting(st, markers):
                return go(rest, events + [st], conds, fl)
            res = []
            res += go(st.body + rest, events + [st], conds + [(st, True, st)],
                      fl)
            res += go(list(st.orelse) + rest, events + [st],
                      conds + [(st, False, st)], fl)
            return res
        if isinstance(st, ast.Try):
            if not _interesting(st, markers):
                return go(rest, events + [st], conds, fl)
            res = go(st.body + st.orelse + st.finalbody + rest, events, conds,
                     fl)
            for h in st.handlers:
                res += go(h.body + st.finalbody + rest, events,
                          conds + [(h, True, st)], fl)
            return res
        if isinstance(st, ast.With):
            if not _interesting(st, markers):
                return go(rest, events + [st], conds, fl)
            return go(st.body + rest, events + [st], conds, fl)
        return go(rest, events + [st], conds, fl)

    for ev, cd, term, fl in go(list(fnode.body), [], [], dict(flags or {})):
        out.append(Path(ev, cd, term, fl))
    return out
