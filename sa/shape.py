"""P7 -- shape interpreter: abstract interpretation of the broadcasting kernel
of utils/core.py over symbolic shapes.

Abstract values
  AArr(shape)   an ndarray known only by its shape: tuple of dims, a dim is an
                int literal or a symbol (str).  Ranks are concrete.
  AVec(items)   a small 1-d integer array whose entries are dims / ints / bools
  Python ints, bools, strings, tuples, ranges, None are themselves.

Anything the interpreter has no transfer function for raises Unsupported
(-> ANALYSIS-ERROR, never a silent pass).  Shape errors NumPy itself would
raise (or silently mis-broadcast) raise ShapeError (-> violation).
"""
import ast

from .project import AnalysisError


class Unsupported(AnalysisError):
    pass


class ShapeError(Exception):
    pass


class AttributeErrorSim(Exception):
    """The interpreted code would raise AttributeError."""


class DataDependent(Exception):
    """The code inspects the size of a caller axis (symbol) at run time."""


class RaiseSim(Exception):
    """The interpreted code executes `raise <name>(...)`."""

    def __init__(self, name, lineno=None):
        Exception.__init__(self, name)
        self.name = name
        self.lineno = lineno


class AClass:
    """A project class used as a value (explicit base-class calls, enum
    members, constructors)."""

    def __init__(self, cls):
        self.cls = cls

    def __repr__(self):
        return f"AClass<{self.cls.name}>"


class AArr:
    __slots__ = ("shape", "hom")

    def __init__(self, shape, hom=None):
        self.shape = tuple(shape)
        self.hom = hom               # homogeneity tag (sa/hom.py) or None

    def __repr__(self):
        return f"AArr{self.shape}"


class AFunc:
    """A lambda / nested function value with its defining environment."""

    def __init__(self, node, env, owner):
        self.node, self.env, self.owner = node, env, owner

    def __repr__(self):
        return "AFunc"


class ABound:
    """A bound method obtained with getattr(obj, "name")."""

    def __init__(self, obj, name):
        self.obj, self.name = obj, name

    def __repr__(self):
        return f"ABound<{self.name}>"


class AIdx(AArr):
    """An array of integer indices (np.arange, argsort ...): as a subscript
    it is advanced indexing, not a mask."""


class AObj:
    """An abstract geometry object: three data slots known by shape."""

    def __init__(self, cls, proj=None, aux=None, dual=None, unit_ndims=1,
                 aux_ndims=0, dual_ndims=0):
        self.cls = cls              # ClassInfo (for method lookup via MRO)
        self.proj_data = proj
        self.aux_data = aux
        self.dual_data = dual
        self.unit_ndims = unit_ndims
        self.aux_ndims = aux_ndims
        self.dual_ndims = dual_ndims
        self.set_calls = []

    def clone(self):
        o = AObj(self.cls, self.proj_data, self.aux_data, self.dual_data,
                 self.unit_ndims, self.aux_ndims, self.dual_ndims)
        return o

    def __repr__(self):
        return (f"AObj<{self.cls.name if self.cls else '?'} "
                f"proj={self.proj_data} aux={self.aux_data} "
                f"dual={self.dual_data}>")


class ABool:
    """A data-dependent truth value (e.g. `(x == 0).any()`)."""

    def __repr__(self):
        return "ABool"


class AScal:
    """An unknown numeric scalar (a value, not a shape quantity)."""
    hom = None
    def __repr__(self):
        return "AScal"


class ANpScal(AScal):
    """A NumPy scalar: what a ufunc / arithmetic operator returns when every
    array operand is 0-d.  Unlike a 0-d array it supports no item
    assignment."""
    def __repr__(self):
        return "ANpScal"


class ANpBool(ANpScal):
    """A NumPy boolean scalar (comparison of scalars); as an index it is a
    0-d mask."""
    def __repr__(self):
        return "ANpBool"


def elementwise(*args):
    """Shape of an elementwise ufunc / operator result."""
    shp = ()
    any_arr = False
    for a in args:
        if isinstance(a, AArr):
            shp = bshape(shp, a.shape) if any_arr else a.shape
            any_arr = True
        elif isinstance(a, (int, float, complex, AScal)) or a is None:
            continue
        else:
            if isinstance(a, str):
                continue             # a symbolic size used as a number
            raise Unsupported(f"elementwise operand {a!r}")
    if any_arr and shp == ():
        return ANpScal()
    if not any_arr and any(isinstance(a, ANpScal) for a in args):
        return ANpScal()
    return AArr(shp) if any_arr else AScal()


def dim_add(d, c):
    """d + c for a dim that is an int or a symbol with an integer offset
    ("n", "n-1", "k+2")."""
    if isinstance(d, int):
        return d + c
    import re
    m = re.match(r"^(.*?)([+-]\d+)?$", d)
    base, off = m.group(1), int(m.group(2) or 0)
    off += c
    return base if off == 0 else f"{base}{off:+d}"


def index_array(a, idx):
    """NumPy basic indexing on a shape: ints, slices, Ellipsis, None."""
    if not isinstance(idx, tuple):
        idx = (idx,)
    n_real = sum((1 if isinstance(i, AIdx) else len(i.shape)
                  if isinstance(i, AArr) else 1)
                 for i in idx if i is not None and i is not Ellipsis
                 and not isinstance(i, ANpBool))
    if n_real > len(a.shape):
        raise ShapeError("too many indices")
    if Ellipsis in idx:
        k = idx.index(Ellipsis)
        fill = (slice(None),) * (len(a.shape) - n_real)
        idx = idx[:k] + fill + idx[k + 1:]
    else:
        idx = idx + (slice(None),) * (len(a.shape) - n_real)
    out = []
    pos = 0
    for i in idx:
        if i is None:
            out.append(1)
            continue
        if isinstance(i, ANpBool):
            out.append("#selected")      # 0-d mask: a new leading axis
            continue
        if isinstance(i, AIdx):
            if pos >= len(a.shape):
                raise ShapeError("too many indices")
            out.extend(i.shape)          # advanced (integer) indexing
            pos += 1
            continue
        if isinstance(i, AArr):
            # boolean mask covering the next len(i.shape) axes
            k = len(i.shape)
            if pos + k > len(a.shape):
                raise ShapeError("boolean mask has too many axes")
            for md, ad in zip(i.shape, a.shape[pos:pos + k]):
                if md != ad:
                    raise ShapeError(
                        f"boolean mask axis {md} does not match array axis "
                        f"{ad}")
            pos += k
            out.append("#selected")
            continue
        d = a.shape[pos]
        pos += 1
        if isinstance(i, int):
            if isinstance(d, int) and not -d <= i < d:
                raise ShapeError(f"index {i} out of bounds for an axis of "
                                 f"size {d}")
            continue
        if isinstance(i, slice):
            if i.start is None and i.stop is None and i.step is None:
                out.append(d)
            elif isinstance(d, int) and all(
                    x is None or isinstance(x, int)
                    for x in (i.start, i.stop, i.step)):
                out.append(len(range(d)[i]))
            elif i.step is None and i.start is None \
                    and isinstance(i.stop, str) and isinstance(d, str) \
                    and d.split("+")[0] == i.stop:
                out.append(i.stop)       # first block of a concatenation
            elif i.step is None and all(
                    x is None or isinstance(x, int) for x in (i.start, i.stop)):
                # length of a slice of a symbolic axis: (a*d + b) form
                def lin(x, default):
                    if x is None:
                        return default
                    return (1, x) if x < 0 else (0, x)
                a_s, b_s = lin(i.start, (0, 0))
                a_e, b_e = lin(i.stop, (1, 0))
                coef, const = a_e - a_s, b_e - b_s
                if coef == 1:
                    out.append(dim_add(d, const))
                elif coef == 0:
                    out.append(max(const, 0))
                else:
                    out.append(f"{d}[{i.start}:{i.stop}]")
            else:
                out.append(f"{d}[{i.start}:{i.stop}]")
            continue
        raise Unsupported(f"index {i!r}")
    return AArr(tuple(out))


class AVec:
    __slots__ = ("items",)

    def __init__(self, items):
        self.items = list(items)

    def __repr__(self):
        return f"AVec{self.items}"


def bdim(a, b):
    """NumPy broadcasting of two dims."""
    if a == b:
        return a
    if a == "#selected" or b == "#selected":
        return "#selected"
    if a == 1:
        return b
    if b == 1:
        return a
    raise ShapeError(f"axes of size {a} and {b} do not broadcast")


def bshape_exact(s1, s2):
    if tuple(s1) != tuple(s2):
        raise ShapeError(f"np.stack of different shapes {s1} and {s2}")
    return tuple(s1)


def bshape(s1, s2):
    n = max(len(s1), len(s2))
    p1 = (1,) * (n - len(s1)) + tuple(s1)
    p2 = (1,) * (n - len(s2)) + tuple(s2)
    return tuple(bdim(a, b) for a, b in zip(p1, p2))


def matmul(a, b):
    if not isinstance(a, AArr) or not isinstance(b, AArr):
        raise Unsupported("@ on non-arrays")
    sa, sb = a.shape, b.shape
    if len(sa) < 2 or len(sb) < 2:
        raise Unsupported("@ with a 1-d operand is not used by the kernel")
    if sa[-1] != sb[-2]:
        raise ShapeError(f"matmul inner dimensions {sa[-1]} vs {sb[-2]}")
    return AArr(bshape(sa[:-2], sb[:-2]) + (sa[-2], sb[-1]))


def _norm_axes(axis, ndim):
    if isinstance(axis, int):
        axis = (axis,)
    if isinstance(axis, AVec):
        axis = tuple(axis.items)
    axis = tuple(axis)
    out = []
    for a in axis:
        if not isinstance(a, int) or isinstance(a, bool):
            raise Unsupported(f"axis {a!r} is not a concrete int")
        if a < 0:
            a += ndim
        if not 0 <= a < ndim:
            raise ShapeError(f"axis {a} out of bounds for rank {ndim}")
        out.append(a)
    if len(set(out)) != len(out):
        raise ShapeError("repeated axis")
    return tuple(out)


def np_expand_dims(a, axis):
    if isinstance(axis, int):
        axis = (axis,)
    axis = tuple(axis)
    nd = len(a.shape) + len(axis)
    ax = _norm_axes(axis, nd)
    it = iter(a.shape)
    return AArr(tuple(1 if i in ax else next(it) for i in range(nd)))


def np_squeeze(a, axis=None):
    if axis is None:
        raise Unsupported("np.squeeze without axis is data dependent")
    ax = _norm_axes(axis, len(a.shape))
    for i in ax:
        if a.shape[i] != 1:
            if isinstance(a.shape[i], str):
                raise DataDependent(
                    f"np.squeeze removes caller axis {a.shape[i]}")
            raise ShapeError(f"cannot squeeze axis of size {a.shape[i]}")
    return AArr(tuple(d for i, d in enumerate(a.shape) if i not in ax))


def mul_dim(d, r):
    if r == 1:
        return d
    if d == 1:
        return r
    return ("mul", d, r)


def np_reshape(a, new):
    """reshape with at most one -1; the trailing dims of `new` that equal
    the trailing dims of `a` are kept, the leading ones are merged."""
    if isinstance(new, int):
        new = (new,)
    new = tuple(new)
    if not isinstance(a, AArr):
        raise Unsupported("reshape of a non-array")
    if new.count(-1) > 1:
        raise ShapeError("reshape with more than one -1")
    if -1 not in new:
        return AArr(new)
    k = new.index(-1)
    tail = new[k + 1:]
    head = new[:k]
    if head:
        raise Unsupported("reshape with -1 not in front")
    if tail and a.shape[len(a.shape) - len(tail):] != tail:
        raise Unsupported(f"reshape {a.shape} -> {new}")
    lead = a.shape[:len(a.shape) - len(tail)]
    if not lead:
        d = 1
    elif len(lead) == 1:
        d = lead[0]
    elif all(isinstance(x, int) for x in lead):
        d = 1
        for x in lead:
            d *= x
    else:
        d = "*".join(str(x) for x in lead)
    return AArr((d,) + tail)


def np_tile(a, reps):
    if isinstance(reps, int):
        reps = (reps,)
    reps = tuple(reps)
    n = max(len(reps), len(a.shape))
    sh = (1,) * (n - len(a.shape)) + a.shape
    rp = (1,) * (n - len(reps)) + reps
    return AArr(tuple(mul_dim(d, r) for d, r in zip(sh, rp)))


GLOBALS = {"SAGE_AVAILABLE": False, "None": None, "True": True,
           "False": False}

UFUNCS = {"np.sqrt", "np.abs", "np.cos", "np.sin", "np.arctan2", "np.exp",
          "np.arccosh", "np.arccos", "np.sign", "np.conjugate", "np.real",
          "np.imag", "np.maximum", "np.minimum", "np.square", "np.tan",
          "np.arctan", "np.sinh", "np.cosh", "np.tanh", "np.arcsinh",
          "np.absolute", "np.log", "np.isnan", "np.emath.sqrt", "np.isclose",
          "np.logical_and", "np.logical_or", "np.logical_not", "np.angle",
          "np.arcsin", "np.power", "np.hypot", "np.isfinite", "np.isinf",
          "np.clip"}


class Interp:
    """module_tree: the module bare names resolve in first; extra_trees: a
    tuple of (prefix, tree) pairs, e.g. ("utils", core_tree), reachable as
    `utils.<name>` (and as bare names from inside themselves)."""

    def __init__(self, module_tree, trace=None, extra_trees=()):
        self.mods = {}
        self.owner = {}
        trees = [("", module_tree)]
        for x in extra_trees:
            trees.append(x if isinstance(x, tuple) else ("utils", x))
        for prefix, t in trees:
            d = {}
            for n in t.body:
                if isinstance(n, ast.FunctionDef):
                    d[n.name] = n
                    self.owner[id(n)] = prefix
                elif isinstance(n, ast.ClassDef):
                    for m in n.body:
                        if isinstance(m, ast.FunctionDef):
                            self.owner[id(m)] = prefix
            self.mods[prefix] = d
            cd = {}
            for n in t.body:
                if isinstance(n, ast.Assign) and len(n.targets) == 1 \
                        and isinstance(n.targets[0], ast.Name) \
                        and isinstance(n.value, ast.Constant) \
                        and isinstance(n.value.value, (int, float, str)):
                    cd[n.targets[0].id] = n.value.value
            self.consts = getattr(self, "consts", {})
            self.consts[prefix] = cd
        self.funcs = dict(self.mods[""])
        for prefix, d in self.mods.items():
            for k, v in d.items():
                self.funcs.setdefault(k, v)
        self.stack = [""]
        self.depth = 0
        self.calls = 0
        self.project = None
        self.rel_prefix = {}
        self.ctor_classes = {}      # ctor name -> (ClassInfo, unit_ndims)
        self.ctor_model = None      # callable(interp, ClassInfo, args, kw)
        self.choices = {}           # id(If node) -> outcome taken
        self.homt = None            # hom.Tracker when homogeneity is tracked
        self.fn_stack = []
        self.cur_stmt = None
        self.pending = []           # decisions first made in this run
        # factory helpers of utils/core.py are modelled, not interpreted
        self.factory = {}
        for prefix, t in trees:
            names = {n.name for n in t.body if isinstance(n, ast.FunctionDef)}
            if {"check_type", "matrix_product", "zeros"} <= names:
                for n in t.body:
                    if isinstance(n, ast.FunctionDef) and n.name in (
                            "zeros", "ones", "identity", "number", "pi",
                            "array_like", "guess_literal_ring", "unit_imag",
                            "check_type", "complex_type"):
                        self.factory[id(n)] = n.name

    def explore_paths(self, run, limit=24):
        """Call run() once per combination of outcomes of the data-dependent
        branches it meets (depth-first, at most `limit` runs); run() must
        build fresh arguments each time.  -> number of runs."""
        n = 0
        stack = [{}]
        while stack and n < limit:
            preset = stack.pop()
            self.choices = dict(preset)
            self.pending = []
            n += 1
            try:
                run()
            finally:
                pend = list(self.pending)
            for i, key in enumerate(pend):
                alt = dict(preset)
                for k in pend[:i]:
                    alt[k] = True
                alt[key] = False
                stack.append(alt)
        self.choices, self.pending = {}, []
        return n

    def lookup(self, name):
        """Resolve a called name in the current module context."""
        if "." in name:
            prefix, _, base = name.rpartition(".")
            d = self.mods.get(prefix)
            if d is not None and base in d:
                return d[base]
            return None
        cur = self.stack[-1]
        d = self.mods.get(cur, {})
        if name in d:
            return d[name]
        return None

    # ------------------------------------------------------------------
    def call(self, fname, args, kwargs=None):
        if fname not in self.funcs:
            raise Unsupported(f"kernel function {fname} not found")
        return self.call_node(self.funcs[fname], args, kwargs)

    def call_node(self, fn, args, kwargs=None):
        fname = fn.name
        kwargs = dict(kwargs or {})
        self.stack.append(self.owner.get(id(fn), self.stack[-1]))
        self.fn_stack.append(fn)
        saved_stmt = self.cur_stmt
        try:
            return self._call_node(fn, fname, args, kwargs)
        except (TypeError, AttributeError, IndexError, KeyError,
                ValueError, AssertionError) as e:
            # the interpreter met a value it has no transfer function for
            raise Unsupported(f"{fname}: {type(e).__name__}: {e}")
        finally:
            self.stack.pop()
            self.fn_stack.pop()
            self.cur_stmt = saved_stmt

    def _call_node(self, fn, fname, args, kwargs):
        env = {}
        a = fn.args
        params = [p.arg for p in a.args]
        defaults = dict(zip(params[len(params) - len(a.defaults):],
                            a.defaults))
        for i, p in enumerate(params):
            if i < len(args):
                env[p] = args[i]
            elif p in kwargs:
                env[p] = kwargs.pop(p)
            elif p in defaults:
                env[p] = self.expr(defaults[p], {})
            else:
                raise Unsupported(f"missing argument {p} for {fname}")
        if kwargs and a.kwarg is None:
            raise Unsupported(f"unexpected keywords {sorted(kwargs)}")
        if a.kwarg is not None:
            env[a.kwarg.arg] = kwargs
        self.depth += 1
        self.calls += 1
        if self.depth > 20:
            raise Unsupported("recursion too deep")
        try:
            r = self.block(fn.body, env)
        finally:
            self.depth -= 1
        if isinstance(r, tuple) and r and r[0] == "__ret__":
            return r[1]
        return None

    def block(self, body, env):
        for k, st in enumerate(body):
            # `if ok: <compute; return>` followed only by a raise is the
            # same validity guard as `if not ok: raise` + compute
            if isinstance(st, ast.If) and not st.orelse \
                    and bool(st.body) and isinstance(
                        st.body[-1], (ast.Return, ast.Raise)) \
                    and self.only_raises(body[k + 1:]):
                self.__dict__.setdefault("guard_tail", set()).add(id(st))
            r = self.stmt(st, env)
            if r is not None:
                return r
        return None

    def stmt(self, st, env):
        self.cur_stmt = st
        if isinstance(st, ast.Expr):
            if isinstance(st.value, ast.Constant):
                return None          # docstring
            self.expr(st.value, env)
            return None
        if isinstance(st, ast.Return):
            return ("__ret__", self.expr(st.value, env)
                    if st.value is not None else None)
        if isinstance(st, ast.Assign):
            v = self.expr(st.value, env)
            for t in st.targets:
                self.assign(t, v, env)
            return None
        if isinstance(st, ast.AugAssign):
            if isinstance(st.target, ast.Subscript):
                base = self.expr(st.target.value, env)
                if isinstance(base, list):
                    i = self.expr(st.target.slice, env)
                    if not isinstance(i, int):
                        raise Unsupported("list index")
                    base[i] = self.binop(st.op, base[i],
                                         self.expr(st.value, env))
                    return None
            if isinstance(st.target, ast.Subscript):
                v = self.expr(st.value, env)
                before = base.hom if isinstance(base, AArr) else None
                self.assign(st.target, v, env)
                if self.homt is not None and isinstance(base, AArr):
                    # the region becomes (old region) op v, the rest stays
                    from .hom import join
                    tmp = AArr(base.shape, before)
                    upd = self.homt.binop(self, st.op, tmp, v,
                                          AArr(base.shape)).hom
                    base.hom = None if self.homt.last_store_unsteady \
                        else join(before, upd)
                return None
            if not isinstance(st.target, ast.Name):
                raise Unsupported("augmented assignment to non-name")
            cur = env[st.target.id]
            v = self.expr(st.value, env)
            if isinstance(cur, AArr):
                res = elementwise(cur, v)
                if res.shape != cur.shape:
                    raise ShapeError(
                        f"in-place update of an array of shape {cur.shape} "
                        f"with a value broadcasting to {res.shape}")
                if self.homt is not None:
                    cur.hom = self.homt.binop(self, st.op, cur, v,
                                              AArr(cur.shape)).hom
                return None
            env[st.target.id] = self.binop(st.op, cur, v)
            return None
        if isinstance(st, ast.If):
            if self.homt is not None:
                self.homt.test_why = None
            tv = self.expr(st.test, env)
            if self.homt is not None and isinstance(tv, (AArr, AScal)) \
                    and self.homt.unsteady(tv):
                self.homt.taint(self, "a branch is decided by a test whose "
                                      "outcome may change with the scale",
                                tv)
            if isinstance(tv, ANpBool):
                tv = ABool()             # value-dependent comparison
            if isinstance(tv, AArr):
                if tv.shape == ():
                    tv = ABool()
                elif all(d == 1 for d in tv.shape):
                    tv = ABool()
                else:
                    raise ShapeError(
                        f"`if {ast.unparse(st.test)[:50]}`: the truth value "
                        f"of an array of shape {tv.shape} is ambiguous "
                        "(ValueError for arrays of objects)")
            if isinstance(tv, ABool):
                # a run-time validity guard: one arm only raises -> the
                # analysis follows the other arm (valid input assumed)
                b_r, o_r = self.only_raises(st.body), \
                    self.only_raises(st.orelse) or id(st) in getattr(
                        self, "guard_tail", ())
                if b_r and not o_r:
                    return self.block(st.orelse, env)
                if o_r and not b_r:
                    return self.block(st.body, env)
                # a genuine data-dependent branch: the driver explores both
                # outcomes (explore_paths); within one run the same `if`
                # always goes the same way
                if self.homt is not None and self.homt.test_why:
                    # not a validity guard: both arms compute something
                    self.homt.event(
                        self, "E8", "which branch is computed is decided by "
                        + self.homt.test_why)
                key = id(st)
                if key not in self.choices:
                    self.choices[key] = True
                    self.pending.append(key)
                return self.block(st.body if self.choices[key]
                                  else st.orelse, env)
            t = self.truth(tv)
            return self.block(st.body if t else st.orelse, env)
        if isinstance(st, ast.Pass):
            return None
        if isinstance(st, ast.Break):
            return ("__break__",)
        if isinstance(st, ast.Continue):
            return ("__continue__",)
        if isinstance(st, ast.FunctionDef):
            env[st.name] = AFunc(st, env, self.stack[-1])
            return None
        if isinstance(st, ast.Raise):
            if st.exc is None:
                raise RaiseSim(env.get("__exc__", "Exception"), st.lineno)
            x = st.exc.func if isinstance(st.exc, ast.Call) else st.exc
            if isinstance(x, ast.Name) and x.id in env \
                    and isinstance(env[x.id], str):
                raise RaiseSim(env[x.id], st.lineno)   # `raise e`
            raise RaiseSim(ast.unparse(x).split(".")[-1], st.lineno)
        if isinstance(st, ast.Try):
            if st.finalbody:
                raise Unsupported("try/finally")
            try:
                r = self.block(st.body, env)
                if r is not None:
                    return r
            except (AttributeErrorSim, RaiseSim) as ex:
                raised = "AttributeError" if isinstance(
                    ex, AttributeErrorSim) else ex.name
                for h in st.handlers:
                    if self.handler_matches(h, raised):
                        if h.name:
                            env[h.name] = raised
                        old = env.get("__exc__")
                        env["__exc__"] = raised
                        try:
                            return self.block(h.body, env)
                        finally:
                            env["__exc__"] = old
                raise
            return self.block(st.orelse, env) if st.orelse else None
        if isinstance(st, ast.For):
            it = self.expr(st.iter, env)
            if isinstance(it, AArr) and it.shape \
                    and isinstance(it.shape[0], int):
                it = tuple(AArr(it.shape[1:]) if len(it.shape) > 1
                           else ANpScal() for _ in range(it.shape[0]))
            if not isinstance(it, (tuple, list)):
                raise Unsupported("loop over a non-concrete iterable")
            for x in it:
                self.assign(st.target, x, env)
                r = self.block(st.body, env)
                if r == ("__break__",):
                    break
                if r == ("__continue__",):
                    continue
                if r is not None:
                    return r
            return None
        if isinstance(st, ast.With):
            return self.block(st.body, env)
        raise Unsupported(f"statement {type(st).__name__} at line "
                          f"{st.lineno}")

    @staticmethod
    def only_raises(body):
        if not body:
            return False
        last = body[-1]
        if isinstance(last, ast.Raise):
            return True
        if isinstance(last, ast.If) and last.orelse:
            return Interp.only_raises(last.body) and \
                Interp.only_raises(last.orelse)
        return False

    def assign(self, t, v, env):
        if isinstance(t, ast.Subscript):
            base = self.expr(t.value, env)
            if isinstance(base, AObj):
                self.obj_method(base, "__setitem__",
                                [self.index(t.slice, env), v], {})
                return
            if isinstance(base, dict):
                base[self.expr(t.slice, env)] = v
                return
            if isinstance(base, list):
                i = self.expr(t.slice, env)
                if not isinstance(i, int):
                    raise Unsupported("list index")
                base[i] = v
                return
            if isinstance(base, ANpScal):
                raise ShapeError(
                    f"item assignment `{ast.unparse(t)} = ...` on a NumPy "
                    "scalar (the result of arithmetic on 0-d operands): "
                    "TypeError for a single (non-composite) object")
            if not isinstance(base, AArr):
                raise Unsupported("subscript store into non-array")
            idx = self.index(t.slice, env)
            region = index_array(base, idx)
            if isinstance(v, AArr):
                if bshape(region.shape, v.shape) != region.shape:
                    raise ShapeError(
                        f"value of shape {v.shape} stored into region of "
                        f"shape {region.shape}")
            if self.homt is not None:
                self.homt.setitem(self, base, idx, v)
            return
        if isinstance(t, ast.Name):
            env[t.id] = v
            if self.homt is not None and self.homt.trace:
                print("   SET", self.fn_stack[-1].name if self.fn_stack
                      else "?", getattr(self.cur_stmt, "lineno", 0), t.id,
                      getattr(v, "hom", v if not isinstance(
                          v, (AArr, AScal, AObj)) else None))
        elif isinstance(t, (ast.Tuple, ast.List)):
            vals = list(v) if isinstance(v, (tuple, list)) else None
            if vals is None and isinstance(v, AArr) and not isinstance(
                    v, AIdx) and not any(isinstance(x, ast.Starred)
                                         for x in t.elts):
                # unpacking an array iterates over its first axis
                if not v.shape:
                    raise ShapeError("unpacking a 0-d array")
                n0 = v.shape[0]
                if isinstance(n0, int) and n0 != len(t.elts):
                    raise ShapeError(
                        f"unpacking an array whose first axis has {n0} "
                        f"entries into {len(t.elts)} names")
                if not isinstance(n0, int):
                    raise ShapeError(
                        f"unpacking an array whose first axis is a composite "
                        f"axis (size {n0}) into {len(t.elts)} names: "
                        "ValueError unless that axis happens to have that "
                        "size")
                rest = v.shape[1:]
                vals = [AArr(rest, getattr(v, "hom", None)) if rest
                        else ANpScal() for _ in t.elts]
            if vals is None or len(vals) != len(t.elts):
                raise Unsupported("tuple unpacking mismatch")
            for el, x in zip(t.elts, vals):
                self.assign(el, x, env)
        else:
            raise Unsupported("assignment target")

    def truth(self, v):
        if isinstance(v, (bool, int)):
            return bool(v)
        if isinstance(v, (tuple, str)):
            return bool(v)
        if v is None:
            return False
        raise Unsupported(f"truth value of {v!r}")

    # ------------------------------------------------------------------
    def binop(self, op, a, b):
        if isinstance(op, ast.MatMult) and isinstance(a, AObj):
            return self.obj_method(a, "__matmul__", [b], {})
        if isinstance(op, ast.MatMult):
            return matmul(a, b)
        if isinstance(a, AArr) or isinstance(b, AArr):
            if isinstance(op, (ast.Add, ast.Sub, ast.Mult, ast.Div, ast.Pow,
                               ast.FloorDiv, ast.Mod)):
                return elementwise(a, b)
            if isinstance(op, (ast.BitAnd, ast.BitOr, ast.BitXor)):
                res = elementwise(a, b)
                return ANpBool() if isinstance(res, ANpScal) else res
            raise Unsupported("operator on arrays")
        if isinstance(a, AScal) or isinstance(b, AScal):
            if isinstance(op, (ast.BitAnd, ast.BitOr, ast.BitXor)):
                return ANpBool()
            if isinstance(a, ANpScal) or isinstance(b, ANpScal):
                return ANpScal()
            return AScal()
        if isinstance(op, (ast.Add, ast.Sub)) and isinstance(a, str) \
                and isinstance(b, int) and not isinstance(b, bool):
            return dim_add(a, b if isinstance(op, ast.Add) else -b)
        if isinstance(op, ast.Add) and isinstance(a, int) \
                and isinstance(b, str):
            return dim_add(b, a)
        if isinstance(op, ast.Add):
            if isinstance(a, list) and isinstance(b, list):
                return a + b
            if isinstance(a, tuple) and isinstance(b, tuple):
                return a + b
            if isinstance(a, AVec) and isinstance(b, int):
                return AVec([self._addi(x, b) for x in a.items])
            if isinstance(a, int) and isinstance(b, int):
                return a + b
        if isinstance(op, ast.Sub):
            if isinstance(a, int) and isinstance(b, int):
                return a - b
        if isinstance(op, ast.Pow) and isinstance(a, int) \
                and isinstance(b, int) and b >= 0:
            return a ** b
        if isinstance(op, ast.Mult):
            if isinstance(a, tuple) and isinstance(b, int):
                return a * b
            if isinstance(a, int) and isinstance(b, tuple):
                return b * a
            if isinstance(a, int) and isinstance(b, int):
                return a * b
        raise Unsupported(f"{type(op).__name__} on {a!r}, {b!r}")

    @staticmethod
    def _addi(x, b):
        if isinstance(x, int) and not isinstance(x, bool):
            return x + b
        raise Unsupported("arithmetic on a symbolic entry")

    def expr(self, e, env):
        if isinstance(e, ast.Constant):
            return e.value
        if isinstance(e, ast.Name):
            if e.id in env:
                return env[e.id]
            if e.id in GLOBALS:
                return GLOBALS[e.id]
            c = self.class_named(e.id)
            if c is not None:
                return AClass(c)
            cd = self.consts.get(self.stack[-1], {})
            if e.id in cd:
                v = cd[e.id]
                return self._const_scal() if isinstance(v, float) else v
            raise Unsupported(f"name {e.id}")
        if isinstance(e, ast.Tuple):
            return tuple(self.expr(x, env) for x in e.elts)
        if isinstance(e, ast.List):
            return [self.expr(x, env) for x in e.elts]
        if isinstance(e, ast.UnaryOp):
            v = self.expr(e.operand, env)
            if isinstance(e.op, ast.USub) and isinstance(v, int):
                return -v
            if isinstance(e.op, ast.Not):
                if isinstance(v, ABool):
                    return v
                return not self.truth(v)
            if isinstance(v, (AArr, AScal)) or isinstance(v, float):
                return v
            if isinstance(e.op, ast.USub) and isinstance(v, str):
                raise Unsupported("negated symbolic size")
            raise Unsupported("unary op")
        if isinstance(e, ast.BinOp):
            a, b = self.expr(e.left, env), self.expr(e.right, env)
            res = self.binop(e.op, a, b)
            if self.homt is not None:
                res = self.homt.binop(self, e.op, a, b, res)
            return res
        if isinstance(e, ast.BoolOp):
            if isinstance(e.op, ast.Or):
                for v in e.values:
                    x = self.expr(v, env)
                    if self.truth(x):
                        return x
                return x
            for v in e.values:
                x = self.expr(v, env)
                if not self.truth(x):
                    return x
            return x
        if isinstance(e, ast.Compare):
            left = self.expr(e.left, env)
            res = True
            for op, c in zip(e.ops, e.comparators):
                right = self.expr(c, env)
                res = self.compare(op, left, right)
                if isinstance(res, AVec):
                    return res
                if not res:
                    return False
                left = right
            return res
        if isinstance(e, ast.Attribute):
            if ast.unparse(e) == "np.pi":
                return self._const_scal()
            if ast.unparse(e) == "np.newaxis":
                return None
            if isinstance(e.value, ast.Name) and e.value.id == "np" \
                    and "np" not in env and e.attr in (
                        "integer", "floating", "inexact", "complexfloating",
                        "float64", "float32", "int64", "complex128",
                        "number", "bool_", "signedinteger"):
                return f"<np.{e.attr}>"
            if isinstance(e.value, ast.Name) and e.value.id in self.mods \
                    and e.value.id not in env:
                if e.attr == "SAGE_AVAILABLE":
                    return False
                c = self.class_in(e.value.id, e.attr)
                if c is not None:
                    return AClass(c)
            v = self.expr(e.value, env)
            if isinstance(v, AClass):
                if e.attr == "__name__":
                    return v.cls.name
                if self.is_enum(v.cls):
                    return f"{v.cls.name}.{e.attr}"
                raise Unsupported(f"class attribute {v.cls.name}.{e.attr}")
            if isinstance(v, AObj) and e.attr == "__class__":
                return AClass(v.cls)
            if isinstance(v, AObj):
                if e.attr in ("proj_data", "aux_data", "dual_data",
                              "unit_ndims", "aux_ndims", "dual_ndims"):
                    return getattr(v, e.attr)
                m = self.find_method(v, e.attr)
                if m is not None and any(
                        ast.unparse(d) == "property"
                        for d in m.decorator_list):
                    return self.call_node(m, [v])
                if m is not None:
                    return ABound(v, e.attr)      # a bound method as a value
                if not self._surely_no_attr(v, e.attr):
                    raise Unsupported(f"instance attribute {e.attr} is not "
                                      "modelled")
                raise AttributeErrorSim(e.attr)
            if isinstance(v, (AArr, AScal)) and e.attr == "dtype":
                return "<dtype>"
            if isinstance(v, ANpScal):
                if e.attr == "shape":
                    return ()
                if e.attr == "ndim":
                    return 0
                if e.attr in ("T", "real", "imag"):
                    return v
            if isinstance(v, AArr):
                if e.attr == "T":
                    return AArr(tuple(reversed(v.shape)),
                                self.homt.shuffled(v) if self.homt else None)
                if e.attr == "ndim":
                    return len(v.shape)
                if e.attr == "shape":
                    return v.shape
            if ast.unparse(e) in ("np.pi", "np.newaxis"):
                return AScal() if e.attr == "pi" else None
            raise Unsupported(f"attribute .{e.attr} of {v!r}")
        if isinstance(e, ast.Subscript):
            v = self.expr(e.value, env)
            if isinstance(v, tuple):
                if isinstance(e.slice, ast.Slice):
                    lo = self.expr(e.slice.lower, env) if e.slice.lower else None
                    hi = self.expr(e.slice.upper, env) if e.slice.upper else None
                    if e.slice.step is not None:
                        raise Unsupported("slice step")
                    for x in (lo, hi):
                        if x is not None and not isinstance(x, int):
                            raise Unsupported("symbolic slice bound")
                    return v[lo:hi]
                i = self.expr(e.slice, env)
                if isinstance(i, int):
                    return v[i]
            if isinstance(v, AArr):
                idx = self.index(e.slice, env)
                res = index_array(v, idx)
                if self.homt is not None:
                    res = self.homt.index(self, v, idx, res)
                return res
            if isinstance(v, ANpScal):
                # NumPy scalars index like 0-d arrays
                return index_array(AArr(()), self.index(e.slice, env))
            if isinstance(v, AObj):
                return self.obj_method(v, "__getitem__",
                                       [self.index(e.slice, env)], {})
            if isinstance(v, dict):
                k = self.expr(e.slice, env)
                if k not in v:
                    raise RaiseSim("KeyError", getattr(e, "lineno", None))
                return v[k]
            if isinstance(v, list):
                i = self.expr(e.slice, env)
                if isinstance(i, int):
                    return v[i]
            raise Unsupported(f"subscript of {v!r}")
        if isinstance(e, ast.Call):
            return self.callexpr(e, env)
        if isinstance(e, ast.Lambda):
            return AFunc(e, env, self.stack[-1])
        if isinstance(e, ast.Dict):
            out = {}
            for k, v in zip(e.keys, e.values):
                if k is None:
                    d = self.expr(v, env)
                    if not isinstance(d, dict):
                        raise Unsupported("** of a non-dict")
                    out.update(d)
                else:
                    out[self.expr(k, env)] = self.expr(v, env)
            return out
        if isinstance(e, ast.IfExp):
            t = self.expr(e.test, env)
            if isinstance(t, ABool):
                raise Unsupported("data-dependent conditional expression")
            return self.expr(e.body if self.truth(t) else e.orelse, env)
        if isinstance(e, ast.JoinedStr):
            return ""
        if isinstance(e, (ast.GeneratorExp, ast.ListComp)) \
                and len(e.generators) == 1 and not e.generators[0].ifs:
            g = e.generators[0]
            it = self.expr(g.iter, env)
            if not isinstance(it, (tuple, list)):
                raise Unsupported("comprehension over a non-concrete "
                                  "iterable")
            out = []
            for x in it:
                env2 = dict(env)
                self.assign(g.target, x, env2)
                out.append(self.expr(e.elt, env2))
            return tuple(out) if isinstance(e, ast.GeneratorExp) else out
        raise Unsupported(f"expression {type(e).__name__}")

    def _const_scal(self):
        x = AScal()
        if self.homt is not None:
            from .hom import INV
            x.hom = INV
        return x

    def is_module_path(self, v, env):
        while isinstance(v, ast.Attribute):
            v = v.value
        return isinstance(v, ast.Name) and v.id not in env and (
            v.id in ("np", "scipy", "math", "itertools", "copy")
            or (v.id in self.mods and v.id != ""))

    def _isinstance(self, v, tnode):
        raise Unsupported(f"isinstance({v!r}, {ast.unparse(tnode)})")

    def call_afunc(self, fv, args, kw):
        node = fv.node
        self.stack.append(fv.owner)
        try:
            env2 = dict(fv.env)
            a = node.args
            params = [p.arg for p in a.args]
            defaults = dict(zip(params[len(params) - len(a.defaults):],
                                a.defaults))
            for i, p in enumerate(params):
                if i < len(args):
                    env2[p] = args[i]
                elif p in kw:
                    env2[p] = kw.pop(p)
                elif p in defaults:
                    env2[p] = self.expr(defaults[p], fv.env)
                else:
                    raise Unsupported(f"missing argument {p}")
            if isinstance(node, ast.Lambda):
                return self.expr(node.body, env2)
            self.depth += 1
            try:
                r = self.block(node.body, env2)
            finally:
                self.depth -= 1
            if isinstance(r, tuple) and r and r[0] == "__ret__":
                return r[1]
            return None
        finally:
            self.stack.pop()

    def keywords(self, e, env):
        kw = {}
        for k in e.keywords:
            if k.arg is None:
                d = self.expr(k.value, env)
                if not isinstance(d, dict):
                    raise Unsupported("** of a non-dict")
                kw.update(d)
            else:
                kw[k.arg] = self.expr(k.value, env)
        return kw

    def index(self, sl, env):
        if isinstance(sl, ast.Tuple):
            return tuple(self.index(x, env) for x in sl.elts)
        if isinstance(sl, ast.Slice):
            lo = self.expr(sl.lower, env) if sl.lower else None
            hi = self.expr(sl.upper, env) if sl.upper else None
            st = self.expr(sl.step, env) if sl.step else None
            return slice(lo, hi, st)
        if isinstance(sl, ast.Constant) and sl.value is Ellipsis:
            return Ellipsis
        if isinstance(sl, ast.Attribute) and ast.unparse(sl) == "np.newaxis":
            return None
        return self.expr(sl, env)

    EXC_BASES = {"AttributeError": (), "TypeError": (), "ValueError": (),
                 "KeyError": ("LookupError",), "IndexError": ("LookupError",),
                 "LinAlgError": ("ValueError",)}

    def handler_matches(self, h, raised):
        if h.type is None:
            return True
        names = [ast.unparse(x).split(".")[-1] for x in (
            h.type.elts if isinstance(h.type, ast.Tuple) else [h.type])]
        anc = {raised, "Exception", "BaseException"}
        anc.update(self.EXC_BASES.get(raised, ()))
        c = self.class_named(raised)
        if c is not None and self.project is not None:
            for b in self.project.mro(c):
                anc.add(b.name)
            for b in c.node.bases:
                anc.add(ast.unparse(b).split(".")[-1])
        return any(n in anc for n in names)

    def class_named(self, name):
        if self.project is None:
            return None
        cache = self.__dict__.setdefault("_class_cache", {})
        key = (self.stack[-1], name)
        if key not in cache:
            found = None
            rels = [r for r, pre in self.rel_prefix.items()
                    if pre == self.stack[-1]] + list(self.rel_prefix)
            for rel in rels:
                try:
                    found = self.project.get_class(rel, name)
                    break
                except AnalysisError:
                    continue
            cache[key] = found
        return cache[key]

    def class_in(self, prefix, name):
        for rel, pre in self.rel_prefix.items():
            if pre == prefix:
                try:
                    return self.project.get_class(rel, name)
                except AnalysisError:
                    return None
        return None

    def is_enum(self, cls):
        return any(ast.unparse(b).split(".")[-1] in ("Enum", "IntEnum")
                   for b in cls.node.bases)

    def find_method(self, obj, name):
        if obj.cls is None or self.project is None:
            return None
        f = self.project.find_method(obj.cls, name)
        if f is None:
            return None
        self.owner.setdefault(id(f.node), self._prefix_of(f.module.rel))
        return f.node

    def _prefix_of(self, rel):
        return self.rel_prefix.get(rel, "")

    def _surely_no_attr(self, obj, name):
        """No class of obj's MRO defines `name` at class level or ever
        assigns `self.<name>` (then reading it is an AttributeError at run
        time); dunder attributes and objects of unknown class are never
        'surely absent'."""
        if name.startswith("__") or obj.cls is None or self.project is None:
            return False
        for k in self.project.mro(obj.cls):
            for n in ast.walk(k.node):
                if isinstance(n, ast.Attribute) and n.attr == name \
                        and isinstance(n.ctx, (ast.Store, ast.Del)):
                    return False
                if isinstance(n, ast.Call) and isinstance(n.func, ast.Name) \
                        and n.func.id == "setattr":
                    return False
            for st in k.node.body:
                if isinstance(st, ast.Assign) and any(
                        isinstance(t, ast.Name) and t.id == name
                        for t in st.targets):
                    return False
                if isinstance(st, ast.AnnAssign) and isinstance(
                        st.target, ast.Name) and st.target.id == name:
                    return False
        return True

    def obj_method(self, obj, name, args, kw):
        if name == "set":
            names = ["proj_data", "aux_data", "dual_data"]
            vals = dict(zip(names, args))
            vals.update({k: v for k, v in kw.items() if k in names})
            obj.set_calls.append(dict(vals))
            for k in names:
                if k in vals:
                    setattr(obj, k, vals[k])
            return None
        if name == "__class__" and self.ctor_model is not None:
            return self.ctor_model(self, obj.cls, list(args), kw)
        m = self.find_method(obj, name)
        if m is None:
            raise AttributeErrorSim(name)
        return self.call_node(m, [obj] + list(args), kw)

    def method(self, a, name, args, kw):
        if name == "squeeze":
            axis = kw.get("axis", args[0] if args else None)
            return np_squeeze(a, axis)
        if name in ("astype", "copy", "conjugate"):
            return a
        if name == "view" and args and isinstance(args[0], str) \
                and args[0].startswith("(2,)"):
            return AArr(a.shape + (2,))     # complex -> pair of reals
        if name in ("any", "all") and not args and not kw:
            return ABool()
        if name in ("any", "all", "prod", "max", "min", "mean"):
            # a reduction along named axes
            axis = kw.get("axis", args[0] if args else None)
            if axis is None:
                return ABool() if name in ("any", "all") else AScal()
            ax = _norm_axes(axis, len(a.shape))
            rest = tuple(d for i, d in enumerate(a.shape) if i not in ax)
            return AArr(rest) if rest else ANpScal()
        if name == "sort":
            axis = kw.get("axis", args[0] if args else -1)
            _norm_axes(axis, len(a.shape))
            return None
        if name == "reshape":
            new = args[0] if len(args) == 1 else tuple(args)
            return np_reshape(a, new)
        if name == "swapaxes":
            if len(args) == 2 and all(isinstance(x, int) for x in args) \
                    and _norm_axes(args[0], len(a.shape)) == \
                    _norm_axes(args[1], len(a.shape)):
                return a                 # swapping an axis with itself
            ax = _norm_axes(tuple(args[:2]), len(a.shape))
            sh = list(a.shape)
            sh[ax[0]], sh[ax[1]] = sh[ax[1]], sh[ax[0]]
            return AArr(tuple(sh))
        if name == "sum":
            axis = kw.get("axis", args[0] if args else None)
            if axis is None:
                return AScal()
            ax = _norm_axes(axis, len(a.shape))
            return AArr(tuple(d for i, d in enumerate(a.shape)
                              if i not in ax))
        raise Unsupported(f"array method .{name}")

    def compare(self, op, a, b):
        if isinstance(op, (ast.In, ast.NotIn)):
            if isinstance(b, (dict, list, tuple, str)) and isinstance(
                    a, (str, int)):
                res = a in b
                return res if isinstance(op, ast.In) else not res
            raise Unsupported("membership test")
        if isinstance(op, (ast.Is, ast.IsNot)):
            same = (a is None and b is None)
            if a is None or b is None:
                return same if isinstance(op, ast.Is) else not same
            raise Unsupported("identity comparison of non-None values")
        if isinstance(a, AArr) or isinstance(b, AArr):
            res = elementwise(a, b)
            res = ANpBool() if isinstance(res, ANpScal) else res
            if self.homt is not None:
                res = self.homt.compare(self, op, a, b, res)
            return res
        if isinstance(a, AScal) or isinstance(b, AScal):
            res = ANpBool()
            if self.homt is not None:
                res = self.homt.compare(self, op, a, b, res)
            return res
        if isinstance(b, AVec) and isinstance(a, int) \
                and isinstance(op, (ast.Eq, ast.NotEq)):
            a, b = b, a                  # `1 == v` is `v == 1`
        if isinstance(a, AVec) and isinstance(b, int):
            if isinstance(op, ast.Eq) and b == 1:
                out = []
                for x in a.items:
                    if isinstance(x, int):
                        out.append(x == 1)
                    else:
                        raise DataDependent(
                            f"the code tests whether caller axis `{x}` has "
                            "size 1 at run time")
                return AVec(out)
            raise Unsupported("vector comparison")
        if isinstance(a, str) and isinstance(b, str):
            if isinstance(op, ast.Eq):
                return a == b
            if isinstance(op, ast.NotEq):
                return a != b
        # a symbolic size against a number: not known here; the driver
        # explores both outcomes
        for x, y in ((a, b), (b, a)):
            if isinstance(x, str) and "." not in x and not x.startswith("<") \
                    and isinstance(y, int) and not isinstance(y, bool) \
                    and isinstance(op, (ast.Eq, ast.NotEq, ast.Lt, ast.LtE,
                                        ast.Gt, ast.GtE)):
                return ABool()
        if isinstance(a, int) and isinstance(b, int):
            return {ast.Eq: a == b, ast.NotEq: a != b, ast.Lt: a < b,
                    ast.LtE: a <= b, ast.Gt: a > b, ast.GtE: a >= b}[type(op)]
        raise Unsupported(f"compare {a!r} {type(op).__name__} {b!r}")

    def callexpr(self, e, env):
        name = ast.unparse(e.func)
        # methods on abstract arrays
        if isinstance(e.func, ast.Attribute) and not self.is_module_path(
                e.func.value, env):
            recv = self.expr(e.func.value, env)
            if isinstance(recv, AObj):
                margs = [self.expr(a, env) for a in e.args]
                mkw = self.keywords(e, env)
                return self.obj_method(recv, e.func.attr, margs, mkw)
            if isinstance(recv, AArr):
                margs = [self.expr(a, env) for a in e.args]
                mkw = self.keywords(e, env)
                res = self.method(recv, e.func.attr, margs, mkw)
                if self.homt is not None:
                    if e.func.attr == "sort" and recv.hom is not None \
                            and not (recv.hom.wild or recv.hom.invariant):
                        recv.hom = None      # order depends on the scale
                    res = self.homt.method(self, recv, e.func.attr, margs,
                                           mkw, res)
                return res
            if isinstance(recv, (ABool, bool)) and e.func.attr in (
                    "any", "all"):
                return recv
            if isinstance(recv, dict):
                margs = [self.expr(a, env) for a in e.args]
                if e.func.attr == "pop" and margs:
                    if margs[0] in recv:
                        return recv.pop(margs[0])
                    if len(margs) > 1:
                        return margs[1]
                    raise RaiseSim("KeyError", getattr(e, "lineno", None))
                if e.func.attr == "get" and margs:
                    return recv.get(margs[0], margs[1] if len(margs) > 1
                                    else None)
                if e.func.attr == "setdefault" and len(margs) == 2:
                    return recv.setdefault(margs[0], margs[1])
                if e.func.attr in ("keys", "values", "items") and not margs:
                    return tuple(getattr(recv, e.func.attr)())
                if e.func.attr == "update" and margs and isinstance(
                        margs[0], dict):
                    recv.update(margs[0])
                    return None
                raise Unsupported(f"dict method .{e.func.attr}")
            if isinstance(recv, AScal):
                for a in e.args:
                    self.expr(a, env)
                if e.func.attr in ("astype", "copy", "conjugate", "item",
                                   "squeeze"):
                    return recv
                if e.func.attr == "view" and e.args and isinstance(
                        e.args[0], ast.Constant) and str(
                            e.args[0].value).startswith("(2,)"):
                    return AArr((2,))
                if e.func.attr in ("any", "all"):
                    if self.homt is not None and self.homt.unsteady(recv):
                        self.homt.taint(
                            self, "a branch is decided by a test whose "
                            "outcome may change with the scale", recv)
                    return ABool()
                if e.func.attr in ("sum", "max", "min"):
                    return recv
                raise Unsupported(f"scalar method .{e.func.attr}")
            if isinstance(recv, AClass) and not self.is_enum(recv.cls):
                margs = [self.expr(a, env) for a in e.args]
                mkw = self.keywords(e, env)
                f = self.project.find_method(recv.cls, e.func.attr)
                if f is None:
                    raise AttributeErrorSim(e.func.attr)
                self.owner.setdefault(id(f.node),
                                      self._prefix_of(f.module.rel))
                if any(ast.unparse(d) in ("staticmethod",)
                       for d in f.node.decorator_list):
                    return self.call_node(f.node, margs, mkw)
                if any(ast.unparse(d) in ("classmethod",)
                       for d in f.node.decorator_list):
                    return self.call_node(f.node, [recv] + margs, mkw)
                return self.call_node(f.node, margs, mkw)
            if isinstance(recv, str) and e.func.attr == "format":
                for a in e.args:
                    self.expr(a, env)
                return ""
        if isinstance(e.func, ast.Name) and isinstance(
                env.get(e.func.id), ABound):
            bm = env[e.func.id]
            return self.obj_method(bm.obj, bm.name,
                                   [self.expr(a, env) for a in e.args],
                                   self.keywords(e, env))
        if isinstance(e.func, ast.Call) and ast.unparse(
                e.func.func) == "getattr":
            bm = self.expr(e.func, env)
            if isinstance(bm, ABound):
                return self.obj_method(bm.obj, bm.name,
                                       [self.expr(a, env) for a in e.args],
                                       self.keywords(e, env))
        if isinstance(e.func, ast.Name) and isinstance(
                env.get(e.func.id), AFunc):
            fv0 = env[e.func.id]
            return self.call_afunc(fv0, [self.expr(a, env) for a in e.args],
                                   self.keywords(e, env))
        args = []
        for a in e.args:
            if isinstance(a, ast.Starred):
                v = self.expr(a.value, env)
                if isinstance(v, AArr) and v.shape and isinstance(
                        v.shape[0], int):
                    args.extend(AArr(v.shape[1:], v.hom) if len(v.shape) > 1
                                else ANpScal() for _ in range(v.shape[0]))
                elif isinstance(v, (tuple, list)):
                    args.extend(v)
                else:
                    raise Unsupported("starred argument of unknown length")
            else:
                args.append(self.expr(a, env))
        kw = self.keywords(e, env)
        res = self._call_tail(e, env, name, args, kw)
        if self.homt is not None:
            res = self.homt.call(self, e, name, list(args), kw, res)
        return res

    def _call_tail(self, e, env, name, args, kw):
        if name == "getattr" and len(args) == 2 and isinstance(
                args[0], AObj) and isinstance(args[1], str):
            if args[1] in ("proj_data", "aux_data", "dual_data",
                           "unit_ndims", "aux_ndims", "dual_ndims"):
                return getattr(args[0], args[1])
            m = self.find_method(args[0], args[1])
            if m is None:
                raise AttributeErrorSim(args[1])
            if any(ast.unparse(d) == "property" for d in m.decorator_list):
                return self.call_node(m, [args[0]])
            return ABound(args[0], args[1])
        if name == "isinstance" and len(args) == 2:
            return False if isinstance(args[0], (AArr, AScal)) else \
                self._isinstance(args[0], e.args[1])
        if name.startswith("np.") and name not in UFUNCS and args \
                and isinstance(args[0], ANpScal) and name not in (
                    "np.zeros_like", "np.ones_like", "np.copy", "np.array",
                    "np.asarray", "np.atleast_1d"):
            args[0] = AArr((), args[0].hom)   # array functions accept NumPy scalars
        fv = None
        if isinstance(e.func, ast.Name) and e.func.id not in env:
            c = self.class_named(e.func.id)
            if c is not None and e.func.id not in self.ctor_classes:
                fv = AClass(c)
        elif isinstance(e.func, ast.Attribute) and isinstance(
                e.func.value, ast.Name) and e.func.value.id in self.mods \
                and e.func.value.id not in env:
            c = self.class_in(e.func.value.id, e.func.attr)
            if c is not None:
                fv = AClass(c)
        if fv is not None:
            if self.ctor_model is None:
                raise Unsupported(f"constructor {fv.cls.name}")
            return self.ctor_model(self, fv.cls, args, kw)
        if name in ("copy", "copy.copy") and args \
                and isinstance(args[0], AObj):
            return args[0].clone()
        if name in ("copy", "copy.copy", "deepcopy", "copy.deepcopy") \
                and args and isinstance(args[0], (AArr, AScal)):
            return args[0]
        if self.project is not None and name in self.ctor_classes \
                and args:
            a0 = args[0]
            if isinstance(a0, AObj):
                o = a0.clone()
                o.cls = self.ctor_classes[name][0]
                return o
            if isinstance(a0, AArr):
                cls, und = self.ctor_classes[name]
                return AObj(cls, proj=a0, unit_ndims=und)
        mf = self.lookup(name)
        mf = mf.name if mf is not None and any(
            ast.unparse(d) == "matrix_func" for d in mf.decorator_list) \
            else None
        if (name == "utils.kernel" or mf == "kernel") and args \
                and isinstance(args[0], AArr):
            sh = args[0].shape
            if len(sh) < 2:
                raise ShapeError(f"kernel of an array of shape {sh}")
            q = "q"
            if isinstance(sh[-1], int) and isinstance(sh[-2], int) \
                    and sh[-1] > sh[-2]:
                q = sh[-1] - sh[-2]      # full row rank assumed
            return AArr(sh[:-2] + (sh[-1], q))
        if (name == "utils.invert" or mf == "invert") and args \
                and isinstance(args[0], AArr):
            sh = args[0].shape
            if len(sh) < 2 or (sh[-1] != sh[-2]):
                raise ShapeError(f"inverse of a non-square array {sh}")
            return args[0]
        if (name in ("utils.eigh", "np.linalg.eigh", "eigh")) and args \
                and isinstance(args[0], AArr):
            sh = args[0].shape
            if len(sh) < 2 or (sh[-1] != sh[-2]):
                raise ShapeError(f"eigenvalues of a non-square array {sh}")
            return (AArr(sh[:-1]), AArr(sh))
        if (name in ("utils.eig", "np.linalg.eig") or mf == "eig") and args \
                and isinstance(args[0], AArr):
            sh = args[0].shape
            if len(sh) < 2 or (sh[-1] != sh[-2]):
                raise ShapeError(f"eigenvalues of a non-square array {sh}")
            return (AArr(sh[:-1]), AArr(sh))
        if name in ("np.identity", "utils.identity"):
            return AArr((args[0], args[0]))
        if name in ("np.zeros", "np.ones", "utils.zeros", "utils.ones"):
            shp = args[0]
            return AArr(tuple(shp) if isinstance(shp, (tuple, list))
                        else (shp,))
        if name in ("utils.guess_literal_ring",):
            return None
        if name in ("utils.number", "utils.pi", "number", "pi") \
                and self.stack[-1] == "utils" or name in ("utils.number",
                                                           "utils.pi"):
            return AScal()
        fn = self.lookup(name)
        if fn is not None and id(fn) in self.factory:
            kind = self.factory[id(fn)]
            if kind == "identity":
                return AArr((args[0], args[0]))
            if kind in ("zeros", "ones"):
                shp = args[0]
                return AArr(tuple(shp) if isinstance(shp, (tuple, list))
                            else (shp,))
            if kind == "array_like":
                if isinstance(args[0], AArr):
                    return args[0]
                if isinstance(args[0], list):
                    def lshape(x):
                        if isinstance(x, list):
                            subs = {lshape(y) for y in x}
                            if len(subs) > 1:
                                raise Unsupported("ragged literal")
                            return (len(x),) + (subs.pop() if subs else ())
                        return ()
                    return AArr(lshape(args[0]))
                raise Unsupported("array_like of a non-array")
            if kind in ("check_type", "complex_type"):
                return (None, "<dtype>")
            if kind == "guess_literal_ring":
                return None
            return AScal()
        if fn is not None:
            return self.call_node(fn, args, kw)
        if name in UFUNCS:
            return elementwise(*args)
        if name == "np.divide":
            res = elementwise(*args[:2])
            out = kw.get("out")
            if isinstance(out, AArr):
                if isinstance(res, AArr) and bshape(out.shape, res.shape) \
                        != out.shape:
                    raise ShapeError(f"np.divide result {res.shape} does not "
                                     f"fit out= of shape {out.shape}")
                return out
            return res
        if name == "np.atleast_1d":
            a = args[0]
            if isinstance(a, AArr):
                return a if a.shape else AArr((1,))
            return AArr((1,))
        if name == "np.errstate":
            return None
        if name in ("np.result_type", "np.promote_types", "np.dtype"):
            return "<dtype>"         # an opaque dtype value
        if name in ("np.zeros_like", "np.ones_like", "np.copy", "np.array",
                    "np.asarray", "np.real_if_close") and args \
                and isinstance(args[0], AArr):
            return args[0]
        if name in ("np.zeros_like", "np.ones_like", "np.copy", "np.array",
                    "np.asarray", "np.atleast_1d") and args \
                and isinstance(args[0], ANpScal):
            return AArr((1,) if name == "np.atleast_1d" else ())
        if name == "np.stack":
            items = args[0]
            axis = kw.get("axis", args[1] if len(args) > 1 else 0)
            shp = None
            for x in items:
                if isinstance(x, AScal) or (isinstance(x, (int, float))
                                            and not isinstance(x, bool)):
                    x = AArr(())
                if not isinstance(x, AArr):
                    raise Unsupported("np.stack of non-arrays")
                shp = x.shape if shp is None else bshape_exact(shp, x.shape)
            nd = len(shp) + 1
            ax = _norm_axes(axis, nd)[0]
            return AArr(shp[:ax] + (len(items),) + shp[ax:])
        if name == "np.concatenate":
            items = list(args[0])
            axis = kw.get("axis", args[1] if len(args) > 1 else 0)
            ax = _norm_axes(axis, len(items[0].shape))[0]
            tot = 0
            sym = []
            for x in items:
                for i, (p, q) in enumerate(zip(items[0].shape, x.shape)):
                    if i != ax and p != q:
                        raise ShapeError(
                            f"np.concatenate: shapes {items[0].shape} and "
                            f"{x.shape} differ off axis {ax}")
                d = x.shape[ax]
                if isinstance(d, int):
                    tot += d
                else:
                    sym.append(str(d))
            if len(sym) == 1:
                dim = dim_add(sym[0], tot)     # "n-1" + 1 is "n"
            else:
                dim = tot if not sym else "+".join(
                    sym + ([str(tot)] if tot else []))
            sh = list(items[0].shape)
            sh[ax] = dim
            return AArr(tuple(sh))
        if name == "np.roll":
            return args[0]
        if name == "np.sum" and isinstance(args[0], AArr):
            return self.method(args[0], "sum", args[1:], kw)
        if name in ("np.linalg.det", "utils.det", "det") \
                and isinstance(args[0], AArr):
            sh = args[0].shape
            if len(sh) < 2:
                raise ShapeError(f"determinant of an array of shape {sh}")
            return AArr(sh[:-2]) if len(sh) > 2 else ANpScal()
        if name == "list" and len(args) == 1 and isinstance(
                args[0], (tuple, list)):
            return list(args[0])
        if name == "np.reshape" and len(args) >= 2:
            return np_reshape(args[0], args[1])
        if name in ("np.issubdtype", "np.can_cast", "np.iscomplexobj",
                    "np.isrealobj"):
            return ABool()               # depends on the data's type
        if name == "enumerate" and len(args) == 1:
            it = args[0]
            if isinstance(it, AArr) and it.shape \
                    and isinstance(it.shape[0], int):
                it = tuple(AArr(it.shape[1:]) if len(it.shape) > 1
                           else ANpScal() for _ in range(it.shape[0]))
            if not isinstance(it, (tuple, list)):
                raise Unsupported("enumerate over a non-concrete iterable")
            return tuple((i, x) for i, x in enumerate(it))
        if name == "np.moveaxis" and isinstance(args[0], AArr) \
                and len(args) == 3:
            nd = len(args[0].shape)
            src = _norm_axes(args[1], nd)[0]
            dst = _norm_axes(args[2], nd)[0]
            sh = list(args[0].shape)
            d = sh.pop(src)
            sh.insert(dst, d)
            return AArr(tuple(sh))
        if name == "np.put_along_axis" and len(args) >= 3:
            arr, ind, vals = args[0], args[1], args[2]
            axis = kw.get("axis", args[3] if len(args) > 3 else None)
            if not isinstance(arr, AArr) or not isinstance(ind, AArr):
                raise Unsupported("put_along_axis of non-arrays")
            if len(arr.shape) != len(ind.shape):
                raise ShapeError(
                    f"put_along_axis: array rank {len(arr.shape)} and index "
                    f"rank {len(ind.shape)} differ")
            ax = _norm_axes(axis, len(arr.shape))[0]
            for i, (p, q) in enumerate(zip(arr.shape, ind.shape)):
                if i != ax:
                    bdim(p, q)
            if isinstance(vals, AArr):
                bshape(ind.shape, vals.shape)
            return None
        if name == "np.count_nonzero" and isinstance(args[0], AArr):
            axis = kw.get("axis", args[1] if len(args) > 1 else None)
            if axis is None:
                return AScal()
            ax = _norm_axes(axis, len(args[0].shape))
            out = tuple(d for i, d in enumerate(args[0].shape)
                        if i not in ax)
            return AArr(out) if out else ANpScal()
        if name == "np.arange" and len(args) == 1:
            return AIdx((args[0],))
        if name in ("np.all", "np.any") and isinstance(args[0], AArr):
            axis = kw.get("axis", args[1] if len(args) > 1 else None)
            if axis is None:
                return ABool()
            ax = _norm_axes(axis, len(args[0].shape))
            out = tuple(d for i, d in enumerate(args[0].shape)
                        if i not in ax)
            return AArr(out) if out else ANpBool()
        if name in ("np.all", "np.any") and isinstance(args[0], AScal):
            return ANpBool()
        if name == "np.full":
            shp = args[0]
            return AArr(tuple(shp) if isinstance(shp, (tuple, list))
                        else (shp,))
        if name == "np.linalg.qr" and isinstance(args[0], AArr) \
                and kw.get("mode") == "complete":
            sh = args[0].shape
            if len(sh) < 2:
                raise ShapeError(f"QR of an array of shape {sh}")
            return (AArr(sh[:-1] + (sh[-2],)), AArr(sh))
        if name == "np.putmask" and len(args) == 3:
            a, mask, vals = args
            if isinstance(a, AArr) and isinstance(mask, AArr) \
                    and mask.shape != a.shape:
                raise ShapeError(f"np.putmask: mask of shape {mask.shape} "
                                 f"for an array of shape {a.shape}")
            if isinstance(a, AArr) and isinstance(vals, AArr) \
                    and vals.shape != a.shape:
                raise ShapeError(
                    f"np.putmask: values of shape {vals.shape} are cycled "
                    f"over an array of shape {a.shape}")
            return None
        if name == "np.tensordot" and len(args) >= 2 \
                and isinstance(args[0], AArr) and isinstance(args[1], AArr):
            axes = kw.get("axes", args[2] if len(args) > 2 else 2)
            sa, sb = args[0].shape, args[1].shape
            if isinstance(axes, int):
                ax_a = tuple(range(len(sa) - axes, len(sa)))
                ax_b = tuple(range(axes))
            else:
                pa, pb = axes
                ax_a = tuple(_norm_axes(tuple(pa) if isinstance(
                    pa, (list, tuple)) else pa, len(sa)))
                ax_b = tuple(_norm_axes(tuple(pb) if isinstance(
                    pb, (list, tuple)) else pb, len(sb)))
            if len(ax_a) != len(ax_b):
                raise ShapeError("np.tensordot: axis lists of different "
                                 "length")
            for i, j in zip(ax_a, ax_b):
                if bdim(sa[i], sb[j]) != sa[i] or sa[i] != sb[j]:
                    raise ShapeError(
                        f"np.tensordot contracts an axis of size {sa[i]} "
                        f"with one of size {sb[j]}")
            return AArr(tuple(d for i, d in enumerate(sa) if i not in ax_a)
                        + tuple(d for j, d in enumerate(sb)
                                if j not in ax_b))
        if name == "np.diagonal" and isinstance(args[0], AArr):
            sh = args[0].shape
            if len(sh) < 2:
                raise ShapeError(f"diagonal of an array of shape {sh}")
            a1 = kw.get("axis1", args[2] if len(args) > 2 else 0)
            a2 = kw.get("axis2", args[3] if len(args) > 3 else 1)
            ax = _norm_axes((a1, a2), len(sh))
            d = sh[ax[0]]
            out = tuple(x for i, x in enumerate(sh) if i not in ax)
            return AArr(out + (d,))
        if name == "np.trace" and isinstance(args[0], AArr):
            sh = args[0].shape
            if len(sh) < 2:
                raise ShapeError(f"trace of an array of shape {sh}")
            a1 = kw.get("axis1", 0)
            a2 = kw.get("axis2", 1)
            ax = _norm_axes((a1, a2), len(sh))
            out = tuple(d for i, d in enumerate(sh) if i not in ax)
            return AArr(out) if out else ANpScal()
        if name in ("scipy.special.binom", "int", "float", "abs"):
            return AScal() if not (name in ("int", "abs") and isinstance(
                args[0], int)) else (abs(args[0]) if name == "abs"
                                     else int(args[0]))
        if name == "np.diag" and args and isinstance(args[0], (list, AArr)):
            if isinstance(args[0], list):
                return AArr((len(args[0]), len(args[0])))
            sh = args[0].shape
            if len(sh) == 1:
                return AArr((sh[0], sh[0]))
            raise Unsupported("np.diag of a matrix")
        if name == "np.lexsort":
            keys = args[0]
            axis = kw.get("axis", args[1] if len(args) > 1 else -1)
            if isinstance(keys, (tuple, list)):
                shp = None
                for x in keys:
                    if not isinstance(x, AArr):
                        raise Unsupported("np.lexsort of non-arrays")
                    shp = x.shape if shp is None else bshape_exact(shp, x.shape)
            elif isinstance(keys, AArr) and len(keys.shape) >= 1:
                shp = keys.shape[1:]
            else:
                raise Unsupported("np.lexsort keys")
            if not shp:
                raise ShapeError("np.lexsort of 0-d keys")
            _norm_axes(axis, len(shp))
            return AArr(shp)
        if name == "np.where" and len(args) == 3:
            res = elementwise(*args)
            # np.where returns an array even for 0-d operands
            return AArr(()) if isinstance(res, AScal) and any(
                isinstance(a, (AArr, ANpScal)) for a in args) else res
        if name == "np.swapaxes" and isinstance(args[0], AArr):
            return self.method(args[0], "swapaxes", args[1:], kw)
        if name == "np.transpose" and isinstance(args[0], AArr) \
                and len(args) == 1 and not kw:
            return AArr(tuple(reversed(args[0].shape)))
        if name == "np.delete" and isinstance(args[0], AArr):
            axis = kw.get("axis", args[2] if len(args) > 2 else None)
            if axis is None or not isinstance(args[1], (int, AScal)):
                raise Unsupported("np.delete without axis / of many entries")
            ax = _norm_axes(axis, len(args[0].shape))[0]
            sh = list(args[0].shape)
            sh[ax] = dim_add(sh[ax], -1)
            return AArr(tuple(sh))
        if name in ("np.argsort", "np.sort", "np.flip", "np.copy",
                    "np.cumsum", "utils.invert", "np.linalg.inv"):
            if "axis" in kw and isinstance(args[0], AArr):
                _norm_axes(kw["axis"], len(args[0].shape))
            return args[0]
        if name == "np.linalg.norm" and isinstance(args[0], AArr):
            axis = kw.get("axis", args[1] if len(args) > 1 else None)
            if axis is None:
                return AScal()
            ax = _norm_axes(axis, len(args[0].shape))
            out = tuple(d for i, d in enumerate(args[0].shape)
                        if i not in ax)
            return AArr(out) if out else ANpScal()
        if name == "np.take_along_axis":
            arr, ind = args[0], args[1]
            axis = kw.get("axis", args[2] if len(args) > 2 else None)
            if not isinstance(arr, AArr) or not isinstance(ind, AArr):
                raise Unsupported("take_along_axis of non-arrays")
            if len(arr.shape) != len(ind.shape):
                raise ShapeError(
                    f"take_along_axis: array rank {len(arr.shape)} and index "
                    f"rank {len(ind.shape)} differ")
            ax = _norm_axes(axis, len(arr.shape))[0]
            out = []
            for i, (p, q) in enumerate(zip(arr.shape, ind.shape)):
                out.append(q if i == ax else bdim(p, q))
            return AArr(tuple(out))
        if name == "np.argmin" or name == "np.argmax":
            axis = kw.get("axis", args[1] if len(args) > 1 else None)
            if axis is None:
                return AScal()
            ax = _norm_axes(axis, len(args[0].shape))
            return AArr(tuple(d for i, d in enumerate(args[0].shape)
                              if i not in ax))
        if name == "np.expand_dims":
            axis = kw.get("axis", args[1] if len(args) > 1 else None)
            return np_expand_dims(args[0], axis)
        if name == "np.squeeze":
            axis = kw.get("axis", args[1] if len(args) > 1 else None)
            return np_squeeze(args[0], axis)
        if name == "np.tile":
            return np_tile(args[0], args[1])
        if name == "np.array":
            if isinstance(args[0], tuple):
                return AVec(args[0])
            if isinstance(args[0], list):
                def lshape(x):
                    if isinstance(x, list):
                        subs = {lshape(y) for y in x}
                        if len(subs) > 1:
                            raise Unsupported("ragged literal")
                        return (len(x),) + (subs.pop() if subs else ())
                    if isinstance(x, AArr):
                        return x.shape
                    return ()
                return AArr(lshape(args[0]))
            raise Unsupported("np.array of non-tuple")
        if name == "np.nonzero":
            v = args[0]
            if isinstance(v, AVec) and all(isinstance(x, bool)
                                           for x in v.items):
                return (AVec([i for i, x in enumerate(v.items) if x]),)
            raise Unsupported("np.nonzero of non-boolean vector")
        if name == "tuple":
            v = args[0]
            if isinstance(v, AVec):
                return tuple(v.items)
            return tuple(v)
        if name == "range":
            if not all(isinstance(a, int) for a in args):
                raise Unsupported("range over a symbolic size")
            return tuple(range(*args))
        if name in ("itertools.product", "product"):
            import itertools as _it
            if not all(isinstance(a, (tuple, list)) for a in args):
                raise Unsupported("itertools.product of a non-concrete "
                                  "iterable")
            rep = kw.get("repeat", 1) if isinstance(kw, dict) else 1
            if not isinstance(rep, int):
                raise Unsupported("itertools.product(repeat=<symbolic>)")
            return tuple(_it.product(*args, repeat=rep))
        if name == "len":
            if isinstance(args[0], AArr):
                if not args[0].shape:
                    raise ShapeError("len() of a 0-d array")
                return args[0].shape[0]
            if isinstance(args[0], AScal):
                raise ShapeError("len() of a scalar")
            return len(args[0])
        if name == "max":
            return max(*args)
        if name == "min":
            return min(*args)
        raise Unsupported(f"call {name}")
