"""P7 -- shape interpreter: abstract interpretation of the broadcasting kernel
of utils/core.py over symbolic shapes.

Abstract values
  AArr(shape)   an ndarray known only by its shape: tuple of dims, a dim is an
                int literal or a symbol (str).  Ranks are concrete.
  AVec(items)   a small 1-d integer array whose entries are dims / ints / bools
  Python ints, bools, strings, tuples, ranges, None are themselves.

Anything the interpreter has no transfer function for raises Unsupported
(-> ANALYSIS-ERROR, never a silent pass).  Shape errors NumPy itself would
raise (or silently mis-broadcast) raise ShapeError (-> violation).
"""
import ast

from .project import AnalysisError


class Unsupported(AnalysisError):
    pass


class ShapeError(Exception):
    pass


class DataDependent(Exception):
    """The code inspects the size of a caller axis (symbol) at run time."""


class AArr:
    __slots__ = ("shape",)

    def __init__(self, shape):
        self.shape = tuple(shape)

    def __repr__(self):
        return f"AArr{self.shape}"


class AVec:
    __slots__ = ("items",)

    def __init__(self, items):
        self.items = list(items)

    def __repr__(self):
        return f"AVec{self.items}"


def bdim(a, b):
    """NumPy broadcasting of two dims."""
    if a == b:
        return a
    if a == 1:
        return b
    if b == 1:
        return a
    raise ShapeError(f"axes of size {a} and {b} do not broadcast")


def bshape(s1, s2):
    n = max(len(s1), len(s2))
    p1 = (1,) * (n - len(s1)) + tuple(s1)
    p2 = (1,) * (n - len(s2)) + tuple(s2)
    return tuple(bdim(a, b) for a, b in zip(p1, p2))


def matmul(a, b):
    if not isinstance(a, AArr) or not isinstance(b, AArr):
        raise Unsupported("@ on non-arrays")
    sa, sb = a.shape, b.shape
    if len(sa) < 2 or len(sb) < 2:
        raise Unsupported("@ with a 1-d operand is not used by the kernel")
    if sa[-1] != sb[-2]:
        raise ShapeError(f"matmul inner dimensions {sa[-1]} vs {sb[-2]}")
    return AArr(bshape(sa[:-2], sb[:-2]) + (sa[-2], sb[-1]))


def _norm_axes(axis, ndim):
    if isinstance(axis, int):
        axis = (axis,)
    if isinstance(axis, AVec):
        axis = tuple(axis.items)
    axis = tuple(axis)
    out = []
    for a in axis:
        if not isinstance(a, int) or isinstance(a, bool):
            raise Unsupported(f"axis {a!r} is not a concrete int")
        if a < 0:
            a += ndim
        if not 0 <= a < ndim:
            raise ShapeError(f"axis {a} out of bounds for rank {ndim}")
        out.append(a)
    if len(set(out)) != len(out):
        raise ShapeError("repeated axis")
    return tuple(out)


def np_expand_dims(a, axis):
    if isinstance(axis, int):
        axis = (axis,)
    axis = tuple(axis)
    nd = len(a.shape) + len(axis)
    ax = _norm_axes(axis, nd)
    it = iter(a.shape)
    return AArr(tuple(1 if i in ax else next(it) for i in range(nd)))


def np_squeeze(a, axis=None):
    if axis is None:
        raise Unsupported("np.squeeze without axis is data dependent")
    ax = _norm_axes(axis, len(a.shape))
    for i in ax:
        if a.shape[i] != 1:
            if isinstance(a.shape[i], str):
                raise DataDependent(
                    f"np.squeeze removes caller axis {a.shape[i]}")
            raise ShapeError(f"cannot squeeze axis of size {a.shape[i]}")
    return AArr(tuple(d for i, d in enumerate(a.shape) if i not in ax))


def mul_dim(d, r):
    if r == 1:
        return d
    if d == 1:
        return r
    return ("mul", d, r)


def np_tile(a, reps):
    if isinstance(reps, int):
        reps = (reps,)
    reps = tuple(reps)
    n = max(len(reps), len(a.shape))
    sh = (1,) * (n - len(a.shape)) + a.shape
    rp = (1,) * (n - len(reps)) + reps
    return AArr(tuple(mul_dim(d, r) for d, r in zip(sh, rp)))


class Interp:
    def __init__(self, module_tree, trace=None):
        self.funcs = {n.name: n for n in module_tree.body
                      if isinstance(n, ast.FunctionDef)}
        self.depth = 0
        self.calls = 0

    # ------------------------------------------------------------------
    def call(self, fname, args, kwargs=None):
        if fname not in self.funcs:
            raise Unsupported(f"kernel function {fname} not found")
        fn = self.funcs[fname]
        kwargs = dict(kwargs or {})
        env = {}
        a = fn.args
        params = [p.arg for p in a.args]
        defaults = dict(zip(params[len(params) - len(a.defaults):],
                            a.defaults))
        for i, p in enumerate(params):
            if i < len(args):
                env[p] = args[i]
            elif p in kwargs:
                env[p] = kwargs.pop(p)
            elif p in defaults:
                env[p] = self.expr(defaults[p], {})
            else:
                raise Unsupported(f"missing argument {p} for {fname}")
        if kwargs:
            raise Unsupported(f"unexpected keywords {sorted(kwargs)}")
        self.depth += 1
        self.calls += 1
        if self.depth > 20:
            raise Unsupported("recursion too deep")
        try:
            r = self.block(fn.body, env)
        finally:
            self.depth -= 1
        if isinstance(r, tuple) and r and r[0] == "__ret__":
            return r[1]
        return None

    def block(self, body, env):
        for st in body:
            r = self.stmt(st, env)
            if r is not None:
                return r
        return None

    def stmt(self, st, env):
        if isinstance(st, ast.Expr):
            if isinstance(st.value, ast.Constant):
                return None          # docstring
            self.expr(st.value, env)
            return None
        if isinstance(st, ast.Return):
            return ("__ret__", self.expr(st.value, env)
                    if st.value is not None else None)
        if isinstance(st, ast.Assign):
            v = self.expr(st.value, env)
            for t in st.targets:
                self.assign(t, v, env)
            return None
        if isinstance(st, ast.AugAssign):
            if not isinstance(st.target, ast.Name):
                raise Unsupported("augmented assignment to non-name")
            cur = env[st.target.id]
            v = self.expr(st.value, env)
            env[st.target.id] = self.binop(st.op, cur, v)
            return None
        if isinstance(st, ast.If):
            t = self.truth(self.expr(st.test, env))
            return self.block(st.body if t else st.orelse, env)
        if isinstance(st, ast.Pass):
            return None
        raise Unsupported(f"statement {type(st).__name__} at line "
                          f"{st.lineno}")

    def assign(self, t, v, env):
        if isinstance(t, ast.Name):
            env[t.id] = v
        elif isinstance(t, (ast.Tuple, ast.List)):
            vals = list(v) if isinstance(v, (tuple, list)) else None
            if vals is None or len(vals) != len(t.elts):
                raise Unsupported("tuple unpacking mismatch")
            for el, x in zip(t.elts, vals):
                self.assign(el, x, env)
        else:
            raise Unsupported("assignment target")

    def truth(self, v):
        if isinstance(v, (bool, int)):
            return bool(v)
        if isinstance(v, (tuple, str)):
            return bool(v)
        if v is None:
            return False
        raise Unsupported(f"truth value of {v!r}")

    # ------------------------------------------------------------------
    def binop(self, op, a, b):
        if isinstance(op, ast.MatMult):
            return matmul(a, b)
        if isinstance(op, ast.Add):
            if isinstance(a, tuple) and isinstance(b, tuple):
                return a + b
            if isinstance(a, AVec) and isinstance(b, int):
                return AVec([self._addi(x, b) for x in a.items])
            if isinstance(a, int) and isinstance(b, int):
                return a + b
        if isinstance(op, ast.Sub):
            if isinstance(a, int) and isinstance(b, int):
                return a - b
        if isinstance(op, ast.Mult):
            if isinstance(a, tuple) and isinstance(b, int):
                return a * b
            if isinstance(a, int) and isinstance(b, tuple):
                return b * a
            if isinstance(a, int) and isinstance(b, int):
                return a * b
        raise Unsupported(f"{type(op).__name__} on {a!r}, {b!r}")

    @staticmethod
    def _addi(x, b):
        if isinstance(x, int) and not isinstance(x, bool):
            return x + b
        raise Unsupported("arithmetic on a symbolic entry")

    def expr(self, e, env):
        if isinstance(e, ast.Constant):
            return e.value
        if isinstance(e, ast.Name):
            if e.id in env:
                return env[e.id]
            raise Unsupported(f"name {e.id}")
        if isinstance(e, ast.Tuple):
            return tuple(self.expr(x, env) for x in e.elts)
        if isinstance(e, ast.UnaryOp):
            v = self.expr(e.operand, env)
            if isinstance(e.op, ast.USub) and isinstance(v, int):
                return -v
            if isinstance(e.op, ast.Not):
                return not self.truth(v)
            raise Unsupported("unary op")
        if isinstance(e, ast.BinOp):
            return self.binop(e.op, self.expr(e.left, env),
                              self.expr(e.right, env))
        if isinstance(e, ast.BoolOp):
            if isinstance(e.op, ast.Or):
                for v in e.values:
                    x = self.expr(v, env)
                    if self.truth(x):
                        return x
                return x
            for v in e.values:
                x = self.expr(v, env)
                if not self.truth(x):
                    return x
            return x
        if isinstance(e, ast.Compare):
            left = self.expr(e.left, env)
            res = True
            for op, c in zip(e.ops, e.comparators):
                right = self.expr(c, env)
                res = self.compare(op, left, right)
                if isinstance(res, AVec):
                    return res
                if not res:
                    return False
                left = right
            return res
        if isinstance(e, ast.Attribute):
            v = self.expr(e.value, env)
            if isinstance(v, AArr):
                if e.attr == "T":
                    return AArr(tuple(reversed(v.shape)))
                if e.attr == "ndim":
                    return len(v.shape)
                if e.attr == "shape":
                    return v.shape
            raise Unsupported(f"attribute .{e.attr} of {v!r}")
        if isinstance(e, ast.Subscript):
            v = self.expr(e.value, env)
            if isinstance(v, tuple):
                if isinstance(e.slice, ast.Slice):
                    lo = self.expr(e.slice.lower, env) if e.slice.lower else None
                    hi = self.expr(e.slice.upper, env) if e.slice.upper else None
                    if e.slice.step is not None:
                        raise Unsupported("slice step")
                    for x in (lo, hi):
                        if x is not None and not isinstance(x, int):
                            raise Unsupported("symbolic slice bound")
                    return v[lo:hi]
                i = self.expr(e.slice, env)
                if isinstance(i, int):
                    return v[i]
            raise Unsupported(f"subscript of {v!r}")
        if isinstance(e, ast.Call):
            return self.callexpr(e, env)
        raise Unsupported(f"expression {type(e).__name__}")

    def compare(self, op, a, b):
        if isinstance(a, AVec) and isinstance(b, int):
            if isinstance(op, ast.Eq) and b == 1:
                out = []
                for x in a.items:
                    if isinstance(x, int):
                        out.append(x == 1)
                    else:
                        raise DataDependent(
                            f"the code tests whether caller axis `{x}` has "
                            "size 1 at run time")
                return AVec(out)
            raise Unsupported("vector comparison")
        if isinstance(a, str) and isinstance(b, str):
            if isinstance(op, ast.Eq):
                return a == b
            if isinstance(op, ast.NotEq):
                return a != b
        if isinstance(a, int) and isinstance(b, int):
            return {ast.Eq: a == b, ast.NotEq: a != b, ast.Lt: a < b,
                    ast.LtE: a <= b, ast.Gt: a > b, ast.GtE: a >= b}[type(op)]
        raise Unsupported(f"compare {a!r} {type(op).__name__} {b!r}")

    def callexpr(self, e, env):
        name = ast.unparse(e.func)
        args = [self.expr(a, env) for a in e.args]
        kw = {k.arg: self.expr(k.value, env) for k in e.keywords}
        if name in self.funcs:
            return self.call(name, args, kw)
        if name == "np.expand_dims":
            axis = kw.get("axis", args[1] if len(args) > 1 else None)
            return np_expand_dims(args[0], axis)
        if name == "np.squeeze":
            axis = kw.get("axis", args[1] if len(args) > 1 else None)
            return np_squeeze(args[0], axis)
        if name == "np.tile":
            return np_tile(args[0], args[1])
        if name == "np.array":
            if isinstance(args[0], tuple):
                return AVec(args[0])
            raise Unsupported("np.array of non-tuple")
        if name == "np.nonzero":
            v = args[0]
            if isinstance(v, AVec) and all(isinstance(x, bool)
                                           for x in v.items):
                return (AVec([i for i, x in enumerate(v.items) if x]),)
            raise Unsupported("np.nonzero of non-boolean vector")
        if name == "tuple":
            v = args[0]
            if isinstance(v, AVec):
                return tuple(v.items)
            return tuple(v)
        if name == "range":
            return tuple(range(*args))
        if name == "len":
            return len(args[0])
        if name == "max":
            return max(*args)
        if name == "min":
            return min(*args)
        raise Unsupported(f"call {name}")
