"""Two-way self-test of the checkers (thorough tier).

Every armed rule must FIRE on scratch-copy variants of the repository with
one instance broken (naming the rule), and stay SILENT on behaviour-preserving
edits.  Scratch copies live under $TMPDIR and are removed immediately.
A self-test failure is exit 2 (the checker is broken), never a VIOLATION.
"""
import ast
import json
import os
import shutil
import sys
import tempfile
from concurrent.futures import ProcessPoolExecutor

G = "geometry_tools/"
H = G + "hyperbolic.py"
P = G + "projective.py"
R = G + "representation.py"
F = G + "automata/fsa.py"
C = G + "utils/core.py"
T = G + "utils/types.py"
X = G + "complex_projective.py"
D = G + "drawtools.py"
K = G + "coxeter.py"

# (id, [properties], expected rule, file, old, new)
MUTANTS = [
    # ---- C01
    ("c01-unclamp", ["C01"], "G1", H,
     "np.arccosh(np.maximum(np.abs(products), 1))",
     "np.arccosh(np.abs(products))"),
    ("c01-clamp-below-one", ["C01"], "G1", H,
     "np.arccosh(np.maximum(np.abs(products), 1))",
     "np.arccosh(np.maximum(np.abs(products), 0))"),
    ("c01-drop-halfspace-arm", ["C01"], "D1", H,
     "            if model == Model.HALFSPACE:\n                return self.halfspace_coords(proj_data, **kwargs)\n",
     ""),
    ("c01-arm-drops-data", ["C01"], "D1", H,
     "                return self.poincare_coords(proj_data, **kwargs)",
     "                return self.poincare_coords(**kwargs)"),
    ("c01-arm-wrong-handler", ["C01"], "D1", H,
     "                return self.hyperboloid_coords(proj_data, **kwargs)",
     "                return self.halfspace_coords(proj_data, **kwargs)"),
    ("c01-setter-wrong-map", ["C01"], "I1", H,
     "            klein = poincare_to_kleinian(np.array(proj_data))",
     "            klein = kleinian_to_poincare(np.array(proj_data))"),
    ("c01-getter-wrong-map", ["C01"], "I1", H,
     "        return poincare_to_halfspace(poincare_coords)",
     "        return halfspace_to_poincare(poincare_coords)"),
    ("c01-klein-chart", ["C01"], "I1", H,
     "        return self.affine_coords(aff_data, chart_index=0, **kwargs)",
     "        return self.affine_coords(aff_data, chart_index=1, **kwargs)"),
    ("c01-unbound-helper", ["C01"], "U1", H,
     "    hyperbolized = utils.normalize(proj_coords, minkowski(dim))",
     "    hyperbolized = utils.normalize(proj_coords, _minkowski(dim))"),
    # ---- C03
    ("c03-aux-wrong-ndims", ["C03", "C11", "C04"], "S1", P,
     "                aux_product = self._apply_to_data(new_obj.aux_data, broadcast,\n                                                  new_obj.aux_ndims)",
     "                aux_product = self._apply_to_data(new_obj.aux_data, broadcast,\n                                                  new_obj.unit_ndims)"),
    ("c03-set-on-argument", ["C03", "C11"], "P1", P,
     "            new_obj.set(proj_data=proj_product,",
     "            proj_obj.set(proj_data=proj_product,"),
    ("c03-drop-dual", ["C03", "C11"], "S1", P,
     "                        aux_data=aux_product,\n                        dual_data=dual_product)",
     "                        aux_data=aux_product)"),
    ("c03-array-wrap-flag", ["C03", "C05"], "W1", P,
     "    def array_wrap_func(numpy_array):\n        return Transformation(numpy_array, column_vectors=True)",
     "    def array_wrap_func(numpy_array):\n        return Transformation(numpy_array, column_vectors=False)"),
    ("c03-unwrap-no-transpose", ["C03", "C05"], "W1", P,
     "        return wrapped_matrix.matrix.T",
     "        return wrapped_matrix.matrix"),
    ("c03-hyp-wrap-flag", ["C03"], "W1", H,
     "    def wrap_func(numpy_matrix):\n        return Isometry(numpy_matrix, column_vectors=True)",
     "    def wrap_func(numpy_matrix):\n        return Isometry(numpy_matrix, column_vectors=False)"),
    ("c03-swap-factors", ["C03", "C04"], "RO", P,
     "        return utils.matrix_product(proj_data,\n                                    matrix,",
     "        return utils.matrix_product(matrix,\n                                    proj_data,"),
    ("c03-swap-unit-ndims", ["C03", "C04"], "RO", P,
     "                                    unit_ndims, self.unit_ndims,",
     "                                    self.unit_ndims, unit_ndims,"),
    ("c03-inv-not-inverse", ["C03"], "RO", P,
     "        return self.__class__(utils.invert(self.matrix))",
     "        return self.__class__(self.matrix.swapaxes(-1, -2))"),
    ("c03-write-through-copy", ["C03", "C11"], "P1", P,
     "            new_obj.set(proj_data=proj_product,",
     "            new_obj.proj_data[...] = proj_product\n            new_obj.set(proj_data=proj_product,"),
    # ---- C04
    ("c04-swap-pairwise-arms", ["C04"], "SH1", C,
     "            if broadcast == \"pairwise\":\n                reshape1 = np.expand_dims(reshape1,\n                                          axis=tuple(range(excess1, excess1 + excess2)))",
     "            if broadcast == \"pairwise_reversed\":\n                reshape1 = np.expand_dims(reshape1,\n                                          axis=tuple(range(excess1, excess1 + excess2)))"),
    ("c04-range-bound", ["C04"], "SH1", C,
     "                reshape2 = np.expand_dims(reshape2, axis=tuple(range(excess1)))",
     "                reshape2 = np.expand_dims(reshape2, axis=tuple(range(excess2)))"),
    ("c04-drop-squeeze", ["C04"], "SH1", C,
     "    if unit_axis_1 < unit_axis_2:\n        product = squeeze_excess(product, unit_axis_1, unit_axis_2)\n",
     ""),
    ("c04-expand-wrong-side", ["C04"], "SH1", C,
     "    return np.expand_dims(array.T, axis=tuple(range(unit_axes, new_axes))).T",
     "    return np.expand_dims(array, axis=tuple(range(unit_axes, new_axes)))"),
    ("c04-squeeze-window", ["C04"], "SH1", C,
     "    squeezable = np.array(array.T.shape[unit_axes:other_unit_axes])",
     "    squeezable = np.array(array.T.shape[unit_axes:])"),
    ("c04-broadcast-match-tile", ["C04"], "SH1", C,
     "    tile2 = np.tile(exp2, a1.shape[:c1_ndims] + (1,) * (c2_ndims + unit_axes))",
     "    tile2 = np.tile(exp2, a1.shape[:c1_ndims] + (1,) * unit_axes)"),
    ("c04-flatten-aux-unit", ["C04", "C11"], "S1", P,
     "            new_aux_shape = (-1,) + self.aux_data.shape[-1 * aux_unit:]",
     "            new_aux_shape = (-1,) + self.aux_data.shape[-1 * self.unit_ndims:]"),
    # ---- C05
    ("c05-unbound-sym-index", ["C05"], "U1", R,
     "        proj_matrix[sym_index(u, v, n)][i] = 1",
     "        proj_matrix[_sym_index(u, v, n)][i] = 1"),
    ("c05-hadamard", ["C05"], "HAD", R,
     "            square_rep[g] = proj @ tensor_rep[g] @ incl",
     "            square_rep[g] = proj * tensor_rep[g] * incl"),
    ("c05-inverse-store-transpose", ["C05"], "INV", R,
     "            self.generators[self.invert_gen(generator)] = utils.invert(matrix)",
     "            self.generators[self.invert_gen(generator)] = matrix.T"),
    ("c05-compose-asym-only", ["C05"], "INV", R,
     "            generator_iterator = self.generators.keys()",
     "            generator_iterator = self.asym_gens()"),
    ("c05-fold-reversed", ["C05"], "FOLD", R,
     "            matrix = matrix @ self.generators[gen]",
     "            matrix = self.generators[gen] @ matrix"),
    ("c05-dual-no-transpose", ["C05"], "DU", R,
     "            lambda M: utils.invert(M).T",
     "            lambda M: utils.invert(M)"),
    ("c05-conjugate-same-side", ["C05"], "CONJ", R,
     "        return self._compose(lambda M: inv_mat @ M @ mat)",
     "        return self._compose(lambda M: mat @ M @ mat)"),
    # ---- C06
    ("c06-early-return", ["C06"], "M1", R,
     "        matrix_list = []\n        accepted_words = []\n        for adj_state, labels in adj_states.items():",
     "        if len(adj_states) == 0 and not as_start:\n            if with_words:\n                return (empty_arr, [])\n            return empty_arr\n\n        matrix_list = []\n        accepted_words = []\n        for adj_state, labels in adj_states.items():"),
    ("c06-drop-edge-words", ["C06"], "M2", R,
     "                    with_words=with_words,\n                    edge_words=edge_words\n                )",
     "                    with_words=with_words\n                )"),
    ("c06-drop-maxlen", ["C06"], "M2", R,
     "                    as_start=as_start,\n                    maxlen=maxlen,\n                    precomputed=precomputed,",
     "                    as_start=as_start,\n                    precomputed=precomputed,"),
    ("c06-swap-matrix-side", ["C06"], "M3", R,
     "                if as_start:\n                    matrices = edge_elt @ matrices\n                else:\n                    matrices = matrices @ edge_elt",
     "                if as_start:\n                    matrices = matrices @ edge_elt\n                else:\n                    matrices = edge_elt @ matrices"),
    ("c06-swap-word-side", ["C06"], "M3", R,
     "                        words = [label + word for word in words]\n                    else:\n                        words = [word + label for word in words]",
     "                        words = [word + label for word in words]\n                    else:\n                        words = [label + word for word in words]"),
    ("c06-prefix-order", ["C06"], "M3", R,
     "                [additional_mats, accepted_matrices]",
     "                [accepted_matrices, additional_mats]"),
    ("c06-wrapper-drops-option", ["C06"], "M2", R,
     "                                          precomputed=precomputed,\n                                          edge_words=edge_words)",
     "                                          precomputed=precomputed)"),
    # ---- C08
    ("c08-bare-can-cast", ["C08", "C12", "C13"], "T1", T,
     "        dtype = np.asarray(array).dtype\n        return (np.can_cast(dtype, np.dtype(\"complex\")) or\n                np.can_cast(dtype, float))",
     "        return (np.can_cast(array, np.dtype(\"complex\")) or\n                np.can_cast(array, float))"),
    ("c08-canonical-no-transpose", ["C08"], "DU", K,
     "            lambda mat: utils.invert(mat.T)",
     "            lambda mat: utils.invert(mat)"),
    ("c08-no-diagonalize", ["C08"], "DU", K,
     "            diagonalize=True,\n            order_eigenvalues=\"minkowski\",",
     "            order_eigenvalues=\"minkowski\","),
    ("c08-conjugation-order", ["C08"], "DU", K,
     "            lambda mat: Winv @ mat @ W",
     "            lambda mat: W @ mat @ Winv"),
    # ---- C09
    ("c09-share-labels", ["C09"], "V1", F,
     "                in_dict[w][v] = list(labels)",
     "                in_dict[w][v] = labels"),
    ("c09-one-cell-two-views", ["C09"], "V1", F,
     "                self._out_dict[tail][head] = []\n                self._in_dict[head][tail] = []",
     "                cell = []\n                self._out_dict[tail][head] = cell\n                self._in_dict[head][tail] = cell"),
    ("c09-drop-in-append", ["C09"], "V2", F,
     "                self._out_dict[tail][head].append(label)\n                self._in_dict[head][tail].append(label)\n",
     "                self._out_dict[tail][head].append(label)\n"),
    ("c09-in-index-order", ["C09"], "V2", F,
     "                self._in_dict[head][tail] += label",
     "                self._in_dict[tail][head] += label"),
    ("c09-add-vertices-no-in", ["C09"], "V2", F,
     "                self._in_dict[v] = defaultdict(list)\n", ""),
    ("c09-delete-keeps-label-view", ["C09"], "V2", F,
     "        self._in_dict.pop(vertex)\n        self._graph_dict.pop(vertex)",
     "        self._in_dict.pop(vertex)"),
    ("c09-defaultdict-in-add-vertices", ["C09", "C10"], "B1", F,
     "                self._graph_dict[v] = {}",
     "                self._graph_dict[v] = defaultdict(dict)"),
    ("c09-defaultdict-hidden", ["C09", "C10"], "B1", F,
     "        for v in hidden:\n            self._graph_dict[v] = {}",
     "        for v in hidden:\n            self._graph_dict[v] = defaultdict(lambda: None)"),
    ("c09-init-no-label-view", ["C09"], "V2", F,
     "            self._build_in_dict()\n            self._build_graph_dict()",
     "            self._build_in_dict()"),
    # ---- C10
    ("c10-recurrent-mutates", ["C10"], "P1", F,
     "        if not inplace:\n            to_modify = copy.deepcopy(self)\n",
     ""),
    ("c10-vivifying-has-edge", ["C10"], "B2", F,
     "        return len(self._out_dict[tail].get(head, [])) > 0",
     "        return len(self._out_dict[tail][head]) > 0"),
    ("c10-rename-always-inplace", ["C10"], "P1", F,
     "        if inplace:\n            self._from_graph_dict(new_dict)\n        else:\n            return FSA(new_dict, self.start_vertices)",
     "        self._from_graph_dict(new_dict)\n        if not inplace:\n            return FSA(new_dict, self.start_vertices)"),
    ("c10-even-is-three", ["C10"], "EV", F,
     "        return self.automaton_multiple(2)",
     "        return self.automaton_multiple(3)"),
    ("c10-multiple-mutates-self", ["C10"], "P1", F,
     "            new_automaton.add_vertices([v])\n",
     "            new_automaton.add_vertices([v])\n            self.add_vertices([v])\n"),
    # ---- C11
    ("c11-setitem-stale", ["C11"], "S2", P,
     "        self.proj_data[key] = self.__class__(value).proj_data\n        if self.aux_ndims > 0:\n            self.aux_data = self._compute_aux_data(self.proj_data)",
     "        self.proj_data[key] = self.__class__(value).proj_data"),
    ("c11-convexify-stale", ["C11"], "S2", P,
     "        self.proj_data = self.proj_data[vertex_indices]\n        self.aux_data = self._compute_aux_data(self.proj_data)",
     "        self.proj_data = self.proj_data[vertex_indices]"),
    ("c11-combine-mix", ["C11"], "S1", P,
     "            new_aux = np.concatenate(\n                [obj.aux_data for obj in flattened_objs],",
     "            new_data = np.concatenate(\n                [obj.aux_data for obj in flattened_objs],"),
    ("c11-astype-aux-from-proj", ["C11"], "S1", P,
     "            new_aux = self.aux_data.astype(dtype)",
     "            new_aux = self.proj_data.astype(dtype)"),
    ("c11-tangent-no-aux", ["C11"], "S3", H,
     "    def _compute_aux_data(self, proj_data):\n        point_data = proj_data[..., 0, :]\n        vec_data = proj_data[..., 1, :]",
     "    def _compute_projected(self, proj_data):\n        point_data = proj_data[..., 0, :]\n        vec_data = proj_data[..., 1, :]"),
    ("c11-flatten-writes-self", ["C11"], "P1", P,
     "        flattened.set(new_proj_data, aux_data=new_aux_data,",
     "        self.set(new_proj_data, aux_data=new_aux_data,"),
    ("c11-reshape-sink-order", ["C11", "C04"], "S1", P,
     "        new_obj = ProjectiveObject(proj_data,\n                                   aux_data,\n                                   dual_data,",
     "        new_obj = ProjectiveObject(proj_data,\n                                   dual_data,\n                                   aux_data,"),
    # ---- C12
    ("c12-unaligned-difference", ["C12"], "H1", H,
     "        diff = aligned - self.proj_data",
     "        diff = other.proj_data - self.proj_data"),
    ("c12-fake-alignment", ["C12"], "H1", H,
     "        aligned = other.proj_data * np.expand_dims(-np.sign(products), axis=-1)",
     "        aligned = other.proj_data * 1.0"),
    # ---- C13
    ("c13-column-convention", ["C13"], "RC", H,
     "        isom = utils.find_isometry(self.minkowski, normed,\n                                   force_oriented)\n\n        return Isometry(isom, column_vectors=False)\n\n    def unit_tangent_towards",
     "        isom = utils.find_isometry(self.minkowski, normed,\n                                   force_oriented)\n\n        return Isometry(isom, column_vectors=True)\n\n    def unit_tangent_towards"),
    ("c13-unbound-in-point-along", ["C13"], "U1", H,
     "        kleinian_pt[..., 0] = hyp_to_affine_dist(distance)",
     "        kleinian_pt[..., 0] = hyp_to_klein_dist(distance)"),
    # ---- C14
    ("c14-segment-wrong-order", ["C14"], "X1", H,
     "        if model == Model.POINCARE:\n            thetas = utils.short_arc(thetas)\n        elif model == Model.HALFSPACE:",
     "        if model == Model.POINCARE:\n            thetas = utils.right_to_left(thetas)\n        elif model == Model.HALFSPACE:"),
    ("c14-unconditional-degrees", ["C14"], "X2", H,
     "        pi = utils.pi(like=thetas)\n        if degrees:\n            thetas *= 180 / pi\n\n        return center, radius, thetas\n\n\nclass Hyperplane",
     "        pi = utils.pi(like=thetas)\n        thetas *= 180 / pi\n\n        return center, radius, thetas\n\n\nclass Hyperplane"),
    ("c14-inverted-degrees", ["C14"], "X2", H,
     "        # WRAPLITERAL\n        if degrees:\n            thetas *= 180 / np.pi",
     "        # WRAPLITERAL\n        if not degrees:\n            thetas *= 180 / np.pi"),
    ("c14-sphere-through-squeeze-axis", ["C14", "C04"], "SH2", C,
     "    center = np.squeeze(t_ctr + p0, axis=-2)",
     "    center = np.squeeze(t_ctr + p0, axis=-1)"),
    ("c14-circle-angles-index", ["C14", "C04"], "SH2", C,
     "    ys = (coords - np.expand_dims(center, axis=-2))[..., 1]",
     "    ys = (coords - np.expand_dims(center, axis=-2))[..., 2]"),
    ("c14-arc-include-newaxis", ["C14", "C04"], "SH2", C,
     "    s_reference = np.expand_dims(reference_theta - thetas[..., 0],\n                                 axis=-1)",
     "    s_reference = np.expand_dims(reference_theta - thetas[..., 0],\n                                 axis=0)"),
    # ---- SH5: hyperbolic objects interpreted end to end
    ("c14-horoarc-unfix-centre-broadcast", ["C14", "C04"], "SH5", H,
     "            center, np.expand_dims(self.center_coords(model=model), axis=-2)\n",
     "            center, self.center_coords(model=model)\n"),
    ("c14-arc-include-unfix-scalar", ["C14", "C04"], "SH2", C,
     "    s_theta1 = np.where(s_theta1 < 0, s_theta1 + 2 * np.pi, s_theta1)\n",
     "    s_theta1[s_theta1 < 0] += 2 * np.pi\n"),
    ("c14-sphere-params-sum-axis", ["C14", "C04"], "SH5", H,
     "    midpoint of the chord between them.\"\"\"\n    if points.shape[-2] == 2:\n        return points.sum(axis=-2) / 2",
     "    midpoint of the chord between them.\"\"\"\n    if points.shape[-2] == 2:\n        return points.sum(axis=-1) / 2"),
    ("c14-halfspace-radius-index", ["C14", "C04"], "SH5", H,
     "                utils.normsq(halfspace_basis[..., 0, :] - halfspace_midpoint)",
     "                utils.normsq(halfspace_basis[..., 0] - halfspace_midpoint)"),
    ("c14-boundary-sphere-slice", ["C14", "C04"], "SH5", H,
     "        sphere_pt_coords = self.ideal_basis_coords(model=Model.HALFSPACE)[..., :-1]",
     "        sphere_pt_coords = self.ideal_basis_coords(model=Model.HALFSPACE)[..., :-2]"),
    ("c14-boundaryarc-centre-shape", ["C14", "C04"], "SH5", H,
     "        center = np.zeros(self.proj_data.shape[:-2] + (2,))",
     "        center = np.zeros(self.proj_data.shape[:-1] + (2,))"),
    ("c14-geodesic-ideal-basis-slice", ["C14", "C04"], "SH5", H,
     "    @property\n    def ideal_basis(self):\n        return self.proj_data[..., :2, :]",
     "    @property\n    def ideal_basis(self):\n        return self.proj_data[..., :1, :]"),
    ("c14-ideal-basis-coords-drops-conversion", ["C14", "C04"], "SH5", H,
     "        return Point(self.ideal_basis).coords(model)",
     "        return Point(self.ideal_basis).coords(Model.PROJECTIVE)"),
    ("c13-point-along-shape", ["C13", "C04"], "SH5", H,
     "        kleinian_shape[-1] -= 1\n",
     "        kleinian_shape[-1] -= 2\n"),
    ("c13-unit-tangent-expand-axis", ["C13", "C04"], "SH5", H,
     "        aligned = other.proj_data * np.expand_dims(-np.sign(products), axis=-1)",
     "        aligned = other.proj_data * np.expand_dims(-np.sign(products), axis=0)"),
    ("c15-data-with-dual-expand-axis", ["C15", "C04"], "SH5", H,
     "            [np.expand_dims(midpoints, axis=-2),",
     "            [np.expand_dims(midpoints, axis=-1),"),
    ("c15-spacelike-complement-row", ["C15", "C04"], "SH5", H,
     "        return DualPoint(orthed[..., 0, :])" if False else
     "            np.expand_dims(orthed[..., -1, :], axis=-2),",
     "            np.expand_dims(orthed[..., -1], axis=-2),"),
    ("c15-fixpoint-unfix-unsorted-branch", ["C15", "C04"], "SH5", H,
     "            sort_indices = np.argsort(in_plane, axis=-1)\n            sort_indices = np.expand_dims(sort_indices, axis=-2)\n",
     "            sort_indices = np.argsort(in_plane, axis=-1)\n"),
    ("c15-from-reflection-take-axis", ["C15", "C04"], "SH5", H,
     "            np.real(evecs), np.expand_dims(reflected, axis=(-1,-2)), axis=-1",
     "            np.real(evecs), np.expand_dims(reflected, axis=-1), axis=-1"),
    ("c15-fixed-point-pair-slice", ["C15", "C04"], "SH5", H,
     "        return PointPair(fixpoint_data[..., :2, :])",
     "        return PointPair(fixpoint_data[..., :2])"),
    ("c04-intersect-geodesic-unfix-params", ["C04"], "SH5", H,
     "        t1 = np.expand_dims(t1, axis=-1)\n        t2 = np.expand_dims(t2, axis=-1)\n",
     ""),
    ("c04-intersect-geodesic-unfix-apply", ["C04"], "SH5", H,
     "        intersections = PointPair(Point(klein_pts, model=Model.KLEIN))\n        return Point(coord_change @ intersections)\n",
     "        return coord_change @ Point(klein_pts, model=Model.KLEIN)\n"),
    ("c13-surface-polygon-unfix-base-ring", ["C13"], "U1", H,
     "        base_ring = kwargs.get(\"base_ring\")\n",
     ""),
    # ---- SH7: projective objects
    ("c04-reshape-aux-wrong-ndims", ["C04", "C11"], "SH7", P,
     "                shape + old_aux_shape[-1*self.aux_ndims:]",
     "                shape + old_aux_shape[-1*self.unit_ndims:]"),
    ("c04-flatten-aux-wrong-unit", ["C04", "C11"], "SH7", P,
     "            new_aux_shape = (-1,) + self.aux_data.shape[-1 * aux_unit:]",
     "            new_aux_shape = (-1,) + self.aux_data.shape[-1 * unit:]"),
    ("c04-astype-drops-aux-ndims", ["C04", "C11"], "SH7", P,
     "        newobj = ProjectiveObject(new_proj, new_aux, new_dual,\n                                  unit_ndims=self.unit_ndims,\n                                  aux_ndims=self.aux_ndims,",
     "        newobj = ProjectiveObject(new_proj, new_aux, new_dual,\n                                  unit_ndims=self.unit_ndims,\n                                  aux_ndims=self.unit_ndims,"),
    ("c04-shape-wrong-ndims", ["C04"], "SH7", P,
     "        return self.proj_data.shape[:-1 * self.unit_ndims]",
     "        return self.proj_data.shape[:-1]"),
    ("c16-affine-coords-delete-axis", ["C16", "C04"], "SH7", P,
     "        _chart_index, axis=-1\n    )",
     "        _chart_index, axis=-2\n    )"),
    ("c16-projective-coords-size", ["C16", "C04"], "SH7", P,
     "    result = utils.zeros(coords.shape[:-1] + (coords.shape[-1] + 1,),",
     "    result = utils.zeros(coords.shape[:-1] + (coords.shape[-1] + 2,),"),
    ("c16-in-standard-chart-axis", ["C16", "C04"], "SH7", P,
     "        return np.all(coord_signs == 1, axis=-1) | np.all(coord_signs == -1, axis=-1)",
     "        return np.all(coord_signs == 1, axis=-1) | np.all(coord_signs == -1, axis=0)"),
    ("c11-get-edges-returns-vertices", ["C11", "C04"], "SH7", P,
     "        return PointPair(self.edges)",
     "        return PointPair(self.vertices)"),
    ("c12-normalize-unfix-int", ["C12"], "T3", C,
     "    if np.issubdtype(vectors.dtype, np.integer):\n        # integer arrays cannot hold the quotient\n        vectors = vectors.astype('float64')\n\n",
     ""),
    ("c12-point-along-unfix-buffer", ["C12"], "LK1", H,
     "                                  like=self.proj_data,\n                                  integer_type=False)",
     "                                  like=self.proj_data)"),
    # ---- C18 (narrow)
    ("c18-diagonalize-unfix-flip-axis", ["C18"], "AX1", C,
     "            order = np.flip(order, axis=-1)",
     "            order = np.flip(order)"),
    ("c18-arc-include-unfix-scalar", ["C18"], "SH2", C,
     "    s_theta1 = np.where(s_theta1 < 0, s_theta1 + 2 * np.pi, s_theta1)\n",
     "    s_theta1[s_theta1 < 0] += 2 * np.pi\n"),
    ("c18-find-isometry-concat-axis", ["C18"], "SH2", C,
     "    iso = np.concatenate([orth_partial, orth_kernel], axis=-2)",
     "    iso = np.concatenate([orth_partial, orth_kernel], axis=-1)"),
    ("c18-construct-diagonal-size", ["C18"], "SH2", C,
     "    result = zeros(diags.shape[:-1] + (n * n,), like=diags)",
     "    result = zeros(diags.shape[:-1] + (n + n,), like=diags)"),
    ("c18-permute-expand-dims", ["C18"], "SH2", C,
     "        p_ind = np.expand_dims(si, (-2, -1))",
     "        p_ind = np.expand_dims(si, -1)"),
    ("c18-winv-permutation-flag", ["C18"], "PA1", C,
     "        Winv = permute_along_axis(Winv, order, axis=-2, inverse=True)",
     "        Winv = permute_along_axis(Winv, order, axis=-2, inverse=False)"),
    ("c18-normalize-unfix-int", ["C18"], "T3", C,
     "    if np.issubdtype(vectors.dtype, np.integer):\n        # integer arrays cannot hold the quotient\n        vectors = vectors.astype('float64')\n\n",
     ""),
    # ---- C17 (narrow)
    ("c17-gln-adjoint-unfix-like", ["C17"], "T4", G + "lie/core.py",
     "def linear_matrix_action(linear_map, n, **kwargs):\n",
     "def linear_matrix_action(linear_map, n, **kwargs):\n    if \"like\" not in kwargs:\n        kwargs[\"like\"] = linear_map\n\n"),
    ("c17-linear-action-unfix-batch", ["C17"], "SH8", G + "lie/core.py",
     "            map_matrix[..., i*n + j] = coords\n\n    return map_matrix\n\ndef sln_linear_action",
     "            map_matrix[:, i*n + j] = coords\n\n    return map_matrix\n\ndef sln_linear_action"),
    ("c17-o-to-pgl-unfix-branch", ["C17"], "SH8", G + "lie/core.py",
     "    b = np.where(A_d[..., 0, 1] < 0, -b, b)\n",
     "    if A_d[..., 0, 1] < 0:\n        b = -b\n"),
    ("c17-sl2-irrep-shape", ["C17"], "SH8", G + "lie/core.py",
     "    im = utils.zeros(A.shape[:-2] +(n, n), like=A, integer_type=False)",
     "    im = utils.zeros(A.shape[:-1] +(n,), like=A, integer_type=False)"),
    ("c17-block-include-slice", ["C17"], "SH8", G + "lie/core.py",
     "    arr[..., :A_dim, :A_dim] = A",
     "    arr[:A_dim, :A_dim] = A"),
    ("c17-slc-to-slr-size", ["C17"], "SH8", G + "lie/core.py",
     "    result = utils.zeros(mat.shape[:-2] + (2 * dim, 2 * dim),",
     "    result = utils.zeros(mat.shape[:-2] + (2 * dim, dim),"),
    ("c12-from-angle-unfix-int", ["C12"], "LK1", H,
     "                             like=like, dtype=dtype, base_ring=base_ring,\n                             integer_type=False)",
     "                             like=like, dtype=dtype, base_ring=base_ring)"),
    ("c12-standard-rotation-unfix-int", ["C12", "C13"], "LK1", H,
     "            dimension, like=like, integer_type=False, **kwargs\n",
     "            dimension, like=like, **kwargs\n"),
    ("c17-sl2-irrep-unfix-int", ["C17"], "LK1", G + "lie/core.py",
     "    im = utils.zeros(A.shape[:-2] +(n, n), like=A, integer_type=False)",
     "    im = utils.zeros(A.shape[:-2] +(n, n), like=A)"),
    ("c12-halfspace-unfix-int", ["C12"], "LK1", H,
     "    halfspace_coords = utils.zeros(points.shape, like=points,\n                                   integer_type=False)\n",
     "    halfspace_coords = np.zeros_like(points)\n"),
    ("c18-svd-kernel-unconjugated", ["C18", "C16"], "SVD1",
     G + "utils/numerical.py",
     "    v = np.conjugate(vh)\n", "    v = vh\n"),
    ("c12-hyperboloid-unfix-sheet", ["C12"], "HOM1", H,
     "    hyperbolized = hyperbolized * np.where(hyperbolized[..., :1] < 0, -1, 1)\n",
     ""),
    ("c16-affine-divide-by-abs", ["C16", "C12"], "HOM1", G + "projective.py",
     "        (apoints.T / apoints.T[_chart_index]).T,",
     "        (apoints.T / np.abs(apoints.T[_chart_index])).T,"),
    ("c20-hopf-drops-conjugate", ["C20"], "HOM1",
     G + "complex_projective.py",
     "    horizontal = utils.c_to_r(2 * np.conjugate(z0) * z1 / normsq)",
     "    horizontal = utils.c_to_r(2 * z0 * z1 / normsq)"),
    ("c20-hopf-wrong-denominator", ["C20"], "HOM1",
     G + "complex_projective.py",
     "    horizontal = utils.c_to_r(2 * np.conjugate(z0) * z1 / normsq)",
     "    horizontal = utils.c_to_r(2 * np.conjugate(z0) * z1 / np.sqrt(normsq))"),
    ("c12-poincare-midpoint-unnormalised", ["C12"], "HOM1", H,
     "            klein_basis = self.ideal_basis_coords(model=Model.KLEIN)\n            klein_midpoint = _flat_center(klein_basis)",
     "            klein_midpoint = kleinian_coords(self.ideal_basis.sum(axis=-2))"),
    ("c15-reflection-transpose-for-inverse", ["C15"], "HOM1", H,
     "        refdata = (utils.invert(dual_data) @\n                   self.minkowski @\n                   dual_data)",
     "        refdata = (dual_data.swapaxes(-1, -2) @\n                   self.minkowski @\n                   dual_data)"),
    ("c16-eigenvector-float-buffer", ["C16"], "CX1", G + "projective.py",
     "        eigvec_coords = utils.zeros(self.proj_data.shape[:-1], like=eigvecs)\n",
     "        eigvec_coords = utils.zeros(self.proj_data.shape[:-1])\n"),
    # ---- C15
    ("c15-drop-reflection-guard", ["C15"], "R1", H,
     "        if (np.abs(eval_differences) > ERROR_THRESHOLD).any():\n            raise GeometryError(\"Not a reflection matrix\")\n",
     ""),
    ("c15-drop-dimension-guard", ["C15"], "R1", H,
     "        if reflection.dimension != 2:\n            raise GeometryError(\"Creating segment from reflection expects dimension 2, got dimension {}\".format(reflection.dimension))\n",
     ""),
    ("c15-guard-not-on-eigenvalues", ["C15"], "R1", H,
     "        if (np.abs(eval_differences) > ERROR_THRESHOLD).any():",
     "        if (np.abs(expected_evals) > 2).any():"),
    ("c15-eig-no-transpose", ["C15"], "EIG1", H,
     "        eigvals, eigvecs = utils.eig(self.proj_data.swapaxes(-1, -2))\n        norms = utils.normsq(",
     "        eigvals, eigvecs = utils.eig(self.proj_data)\n        norms = utils.normsq("),
    ("c15-reflection-conjugation-order", ["C15"], "REF1", H,
     "        refdata = (utils.invert(dual_data) @\n                   self.minkowski @\n                   dual_data)",
     "        refdata = (dual_data @\n                   self.minkowski @\n                   utils.invert(dual_data))"),
    ("c16-eigenvector-no-transpose", ["C16"], "EIG1", P,
     "        eigvals, eigvecs = utils.eig(self.proj_data.swapaxes(-1, -2))\n        eigvec_coords",
     "        eigvals, eigvecs = utils.eig(self.proj_data)\n        eigvec_coords"),
    # ---- C16
    ("c16-float-cast", ["C16"], "C1", P,
     "    if (np.abs(apoints[..., _chart_index]).astype('float64') == 0).any():",
     "    if (apoints[..., _chart_index].astype('float64') == 0).any():"),
    ("c16-real-part", ["C16"], "C1", P,
     "        return self.proj_data[..., index] != 0",
     "        return np.real(self.proj_data[..., index]) != 0"),
    ("c16-drop-rejection", ["C16"], "R1c", P,
     "    if (np.abs(apoints[..., _chart_index]).astype('float64') == 0).any():\n        if chart_index is not None:\n            raise GeometryError(\n                \"points don't lie in the specified affine chart\"\n            )\n        else:\n            raise GeometryError(\n                \"points don't lie in any standard affine chart\"\n            )\n",
     ""),
    ("c16-get-other-chart", ["C16", "C01"], "I1c", P,
     "        return affine_coords(self.proj_data, chart_index=chart_index,\n                             column_vectors=False)",
     "        return affine_coords(self.proj_data, chart_index=0,\n                             column_vectors=False)"),
    ("c16-unit-wrong-slot", ["C16"], "I1c", P,
     "    result[..., chart_index] = one",
     "    result[..., 0] = one"),
    # ---- C19
    ("c19-raw-use", ["C19"], "DR1", D,
     "        x, y = pointlist.coords(self.model).T\n        plt.plot(x, y, **default_kwargs)",
     "        x, y = point.coords(self.model).T\n        plt.plot(x, y, **default_kwargs)"),
    ("c19-drop-dimension-guard", ["C19"], "DR1", D,
     "        if obj.dimension != 2:\n            raise GeometryError(\n                (\"Cannot draw a {}-dimensional object in 2-dimensional \"\n                 \"hyperbolic space\").format(obj.dimension)\n            )\n",
     ""),
    ("c19-double-transform", ["C19"], "DR2", D,
     "        polylist = self.preprocess_object(polygon)\n\n        if self.model == Model.KLEIN:",
     "        polylist = self.transform @ self.preprocess_object(polygon)\n\n        if self.model == Model.KLEIN:"),
    ("c19-radians-to-arc", ["C19"], "DR3", D,
     "        centers, radii, thetas = seglist.circle_parameters(model=self.model,\n                                                               degrees=True)",
     "        centers, radii, thetas = seglist.circle_parameters(model=self.model,\n                                                               degrees=False)"),
    ("c19-default-radians", ["C19"], "DR3", H,
     "    def circle_parameters(self, degrees=True, model=Model.POINCARE):\n        \"\"\"Get parameters describing a circular arc corresponding to this\n        segment",
     "    def circle_parameters(self, degrees=False, model=Model.POINCARE):\n        \"\"\"Get parameters describing a circular arc corresponding to this\n        segment"),
    ("c19-no-transform", ["C19"], "DR2", D,
     "        return self.transform @ obj.flatten_to_unit().astype('float64')\n\n\n    def draw_plane",
     "        return obj.flatten_to_unit().astype('float64')\n\n\n    def draw_plane"),
    # ---- C20
    ("c20-fs-diameter-unfix-scalar", ["C20"], "SH6", X,
     "        inverted = ~self.center_inside()\n\n        return np.where(inverted, np.pi - res, res)\n",
     "        inverted = ~self.center_inside()\n        res[inverted] = np.pi - res[inverted]\n\n        return res\n"),
    ("c20-boundary-points-slice", ["C20"], "SH6", X,
     "        return CP1Point(self.proj_data[..., :3, :])",
     "        return CP1Point(self.proj_data[..., :2, :])"),
    ("c20-interior-point-index", ["C20"], "SH6", X,
     "        return CP1Point(self.proj_data[..., -1, :])",
     "        return CP1Point(self.proj_data[..., -1])"),
    ("c20-real-affine-squeeze-axis", ["C20"], "SH6", X,
     "        return np.squeeze(utils.c_to_r(self.affine_coords()), axis=-2)",
     "        return np.squeeze(utils.c_to_r(self.affine_coords()), axis=-1)"),
    ("c20-compute-proj-data-stack-axis", ["C20"], "SH6", X,
     "                                        center_coords], axis=-2)",
     "                                        center_coords], axis=-1)"),
    ("c20-spherical-concat-axis", ["C20"], "SH6", X,
     "    spherical = np.concatenate([horizontal, np.expand_dims(vertical, axis=-1)],\n                               axis=-1)",
     "    spherical = np.concatenate([horizontal, np.expand_dims(vertical, axis=0)],\n                               axis=-1)"),
    ("c20-pairwise-expand-axis", ["C20"], "SH6", X,
     "        naffaffmask = np.logical_and(\n            np.expand_dims(~s_aff, axis=1),\n            np.expand_dims(o_aff, axis=0)\n        )\n        naffnaffmask",
     "        naffaffmask = np.logical_and(\n            np.expand_dims(~s_aff, axis=0),\n            np.expand_dims(o_aff, axis=0)\n        )\n        naffnaffmask"),
    ("c20-reuse-after-normalise", ["C20"], "O1", X,
     "                normed_ctr = utils.normalize(np.copy(center_coords))",
     "                normed_ctr = utils.normalize(center_coords)"),
    ("c20-mask-mismatch", ["C20"], "K1", X,
     "            res[s_aff & ~o_aff] = ~contained[s_aff & ~o_aff]",
     "            res[s_aff & ~o_aff] = ~contained[~s_aff & ~o_aff]"),
    ("c20-contains-mask", ["C20"], "K1", X,
     "            res[~s_aff & o_aff] = ~intersect[~s_aff & o_aff]",
     "            res[~s_aff & o_aff] = ~intersect[s_aff & o_aff]"),
    ("c20-pairwise-table", ["C20"], "K2", X,
     "        np.putmask(res, naffaffmask, ~intersect)\n        np.putmask(res, naffnaffmask, contained)",
     "        np.putmask(res, naffaffmask, intersect)\n        np.putmask(res, naffnaffmask, contained)"),
    ("c20-pairwise-axes", ["C20"], "K2", X,
     "        affaffmask = np.logical_and(\n            np.expand_dims(s_aff, axis=1),\n            np.expand_dims(o_aff, axis=0)\n        )\n        naffaffmask = np.logical_and(\n            np.expand_dims(~s_aff, axis=1),\n            np.expand_dims(o_aff, axis=0)\n        )\n        naffnaffmask",
     "        affaffmask = np.logical_and(\n            np.expand_dims(s_aff, axis=0),\n            np.expand_dims(o_aff, axis=1)\n        )\n        naffaffmask = np.logical_and(\n            np.expand_dims(~s_aff, axis=1),\n            np.expand_dims(o_aff, axis=0)\n        )\n        naffnaffmask"),
    ("c20-swapped-roles", ["C20"], "K2", X,
     "        contain, contained, intersect = utils.disk_interactions(\n            sctr, srad, octr, orad, broadcast=broadcast\n        )\n\n        res = np.full(contain.shape, True)",
     "        contain, contained, intersect = utils.disk_interactions(\n            octr, orad, sctr, srad, broadcast=broadcast\n        )\n\n        res = np.full(contain.shape, True)"),
    ("c02-elliptic-block-over-time-axis", ["C02"], "BLK1", H,
     "        mat[0,0] = utils.number(1, like=like, **kwargs)\n        mat[1:, 1:] = block_elliptic",
     "        mat[-1,-1] = utils.number(1, like=like, **kwargs)\n        mat[:-1, :-1] = block_elliptic"),
    ("c02-loxodromic-transpose-for-inverse", ["C02"], "BLK1", H,
     "                        utils.invert(basis_change)),",
     "                        basis_change.swapaxes(-1, -2)),"),
    ("c02-loxodromic-pair-not-reciprocal", ["C02"], "BLK1", H,
     "            np.concatenate(([parameter, 1.0/parameter],",
     "            np.concatenate(([parameter, -1.0/parameter],"),
    ("c02-reflection-householder-unnormalised", ["C02", "C15"], "HOM1", H,
     "        refdata = (utils.invert(dual_data) @\n                   self.minkowski @\n                   dual_data)",
     "        normal = dual_data[..., :1, :]\n        refdata = utils.identity(self.dimension + 1, like=dual_data) - 2 * (self.minkowski @ normal.swapaxes(-1, -2) @ normal)"),
    ("c02-pseudo-inverse", ["C02"], "PINV1", C,
     "    return np.linalg.inv(mat)",
     "    return np.linalg.pinv(mat)"),
    # ---- C07
    ("c07-automaton-drops-shortlex", ["C07"], "THR1", G + "coxeter.py",
     "            self.coxeter_matrix,\n            shortlex\n        )",
     "            self.coxeter_matrix\n        )"),
    ("c07-matrix-entry-drops-flag", ["C07"], "THR1", G + "automata/coxeter_automaton.py",
     "        return generate_automaton(small_roots, lex_reduced)",
     "        return generate_automaton(small_roots)"),
    ("c07-transition-constant-flag", ["C07"], "THR1", G + "automata/coxeter_automaton.py",
     "apply_gen_to_node(small_roots, k, node, i, lex_reduced = lex_reduced)",
     "apply_gen_to_node(small_roots, k, node, i, lex_reduced = True)"),
    ("c07-even-when-not-asked", ["C07"], "EVEN2", G + "coxeter.py",
     "        if even_length:\n            return aut.even_automaton()",
     "        if not even_length:\n            return aut.even_automaton()"),
    ("c07-rename-sorted-names", ["C07"], "ORD2", G + "coxeter.py",
     "        aut.rename_generators(self.ordered_gens)",
     "        aut.rename_generators(sorted(self.generators))"),
    ("c07-infinity-includes-one", ["C07"], "INFC", G + "automata/coxeter_automaton.py",
     "if m > 0 else -1",
     "if m > 1 else -1"),
    ("c07-infinity-arm-zero", ["C07"], "INFC", G + "automata/coxeter_automaton.py",
     "if m > 0 else -1",
     "if m > 0 else 0"),
    ("c07-edge-without-reduced-guard", ["C07"], "GEO1", G + "automata/coxeter_automaton.py",
     "                        if node[k] == 1:\n                                continue\n",
     ""),
    ("c07-pruning-includes-k", ["C07"], "LEX1", G + "automata/coxeter_automaton.py",
     "                for j in range(k):",
     "                for j in range(k + 1):"),
    ("c07-pruning-unconditional", ["C07"], "LEX1", G + "automata/coxeter_automaton.py",
     "        if lex_reduced:\n                for j in range(k):",
     "        if True:\n                for j in range(k):"),
    ("c07-descent-exact-zero", ["C07"], "TOL2", G + "automata/coxeter_automaton.py",
     "        while not next(filter(lambda x: x < -1e-6, root), None):",
     "        while min(root) >= 0:"),
    ("c07-pairing-exact-zero", ["C07"], "TOL2", G + "automata/coxeter_automaton.py",
     "                        if f > 1e-6:",
     "                        if f > 0:"),
    ("c07-small-root-exact-bounds", ["C07"], "TOL2", G + "automata/coxeter_automaton.py",
     "                                if f > -1 + 1e-6 and f < -1e-6:",
     "                                if f > -1 and f < 0:"),
    ("c07-swap-table-unguarded-index", ["C07"], "SENT1", G + "automata/coxeter_automaton.py",
     "                        newnode = tuple(\n                                apply_gen_to_node(small_roots, k, node, i, lex_reduced = lex_reduced)\n                                for i in range(nroots))",
     "                        image = [r_.neighbors[k].id if r_.neighbors[k] else -1 for r_ in small_roots]\n                        newnode = [node[j] if j >= 0 else 0 for j in image]\n                        newnode[k] = 1\n                        if lex_reduced:\n                                for j in range(k):\n                                        newnode[image[j]] = 1\n                        newnode = tuple(newnode)"),
    ("c05-dtype-last-writer-wins", ["C05"], "AGG1", G + "representation.py",
     "        if first_generator:\n            self._dtype = matrix.dtype\n        else:\n            self._dtype = np.result_type(self._dtype, matrix.dtype)\n",
     "        self._dtype = matrix.dtype\n"),
    # ---- rules written from round 10
    ("c10-recurrent-returns-self", ["C10", "C09"], "RET1", G + "automata/fsa.py",
     "        to_modify = self\n\n        if not inplace:\n            to_modify = copy.deepcopy(self)\n",
     "        if not inplace and not self._out_dict:\n            return self\n\n        to_modify = self\n\n        if not inplace:\n            to_modify = copy.deepcopy(self)\n"),
    ("c09-graph-dict-lazy-rows", ["C09"], "VROW1", G + "automata/fsa.py",
     "        label_dict = {v:{} for v in self._out_dict}",
     "        label_dict = defaultdict(dict)"),
    ("c13-lru-cache-on-radius", ["C13", "C12"], "LRU1", H,
     "def regular_polygon_radius(n, interior_angle):",
     "@functools.lru_cache(maxsize=None)\ndef regular_polygon_radius(n, interior_angle):"),
    ("c08-coxeter-matrix-asarray", ["C08"], "OWN1", G + "coxeter.py",
     "        _matrix = np.array(matrix)",
     "        _matrix = np.asarray(matrix)"),
    ("c08-w-sign-normalised-only", ["C08", "C18", "C02"], "PAIR1", C,
     "    W = U @ D\n",
     "    W = U @ D\n    W = W * np.where(W[..., :1, :] < 0, -1, 1)\n"),
    ("c02-diagonalize-general-eig", ["C02", "C08"], "PAIR1", C,
     "    eigs, U = eigh(bilinear_form)",
     "    eigs, U = eig(bilinear_form)"),
    ("c04-fixpoint-tolerance-whole-stack-norm", ["C04", "C15"], "AX1", H,
     "        in_plane = np.where(norms > ERROR_THRESHOLD, 0, 1)",
     "        in_plane = np.where(norms > ERROR_THRESHOLD * np.linalg.norm(self.proj_data), 0, 1)"),
    ("c03-invert-adjugate-empty-like", ["C03"], "LK1", C,
     "def invert(mat):\n    return np.linalg.inv(mat)",
     "def invert(mat):\n    if np.shape(mat)[-2:] == (1, 1):\n        res = np.empty_like(mat)\n        res[..., 0, 0] = 1 / mat[..., 0, 0]\n        return res\n    return np.linalg.inv(mat)"),
    ("c07-pruning-break", ["C07"], "LEX1", G + "automata/coxeter_automaton.py",
     "                        if small_roots[j].neighbors[k] and position == small_roots[j].neighbors[k].id:\n                                return 1",
     "                        if not small_roots[j].neighbors[k]:\n                                break\n                        if position == small_roots[j].neighbors[k].id:\n                                return 1"),
    # ---- rules written from round 8
    ("c09-label-view-whole-deepcopy", ["C09"], "DC1", G + "automata/fsa.py",
     "        self._graph_dict = {v: copy.deepcopy(neighbors)\n                            for v, neighbors in graph_dict.items()}\n",
     "        self._graph_dict = copy.deepcopy(graph_dict)\n"),
    ("c09-label-view-shallow-copy", ["C09"], "DC1", G + "automata/fsa.py",
     "        self._graph_dict = {v: copy.deepcopy(neighbors)\n                            for v, neighbors in graph_dict.items()}\n",
     "        self._graph_dict = dict(graph_dict)\n"),
    ("c16-affine-translation-float-buffer", ["C16"], "LK3", P,
     "    tf = utils.identity(len(translation) + 1, like=translation,\n                        integer_type=False)\n",
     "    tf = np.identity(len(translation) + 1)\n"),
    ("c17-block-include-untyped-identity", ["C17"], "LK3", G + "lie/core.py",
     "    arr = utils.zeros(A.shape[:-2] + (dimension, dimension),\n                      like=A)",
     "    arr = np.zeros(A.shape[:-2] + (dimension, dimension))"),
    ("c03-isometry-inv-by-adjoint", ["C03", "C02"], "INV3", H,
     "    def _data_to_object(self, data):\n        return HyperbolicObject(data)\n",
     "    def _data_to_object(self, data):\n        return HyperbolicObject(data)\n\n    def inv(self):\n        form = self.minkowski\n        return self.__class__(form @ self.matrix.swapaxes(-1, -2) @ form)\n"),
    ("c13-isometry-to-transposed-frame", ["C13"], "RC2", H,
     "        return other.origin_to(**kwargs) @ self.origin_to(**kwargs).inv()",
     "        frame = self.origin_to(**kwargs).proj_data\n        return other.origin_to(**kwargs) @ Isometry(frame.swapaxes(-1, -2))"),
    ("c13-origin-to-column-flag", ["C13"], "RC", H,
     "        return Isometry(isom, column_vectors=False)\n\n    def unit_tangent_towards",
     "        return Isometry(isom, column_vectors=True)\n\n    def unit_tangent_towards"),
    ("c18-orientation-negate-all", ["C18", "C13", "C02"], "ORI1", C,
     "    preserved[det(preserved) < 0, -1, :] *= -1",
     "    preserved[det(preserved) < 0] *= -1"),
    ("c18-orientation-where-negate", ["C18"], "ORI1", C,
     "    preserved = matrix.copy()\n    preserved[det(preserved) < 0, -1, :] *= -1\n    return preserved",
     "    return np.where((det(matrix) < 0)[..., np.newaxis, np.newaxis], -matrix, matrix)"),
    ("c08-eigs-abs-before-ordering", ["C08", "C18"], "NONNEG1", C,
     "    n_eigs = eigs.astype('float64')",
     "    eigs = np.abs(eigs)\n    n_eigs = eigs.astype('float64')"),
    ("c08-order-by-sqrt", ["C08"], "NONNEG1", C,
     "    n_eigs = eigs.astype('float64')",
     "    n_eigs = np.sqrt(np.abs(eigs)).astype('float64')"),
    ("c16-diagonalize-eigh-symmetric", ["C16"], "EIGH2", P,
     "        _, conj = utils.eig(self.proj_data.swapaxes(-1, -2),\n                            **kwargs)",
     "        mat = self.proj_data.swapaxes(-1, -2)\n        if np.allclose(mat, self.proj_data):\n            _, conj = utils.eigh(mat)\n        else:\n            _, conj = utils.eig(mat, **kwargs)"),
    ("c11-astype-round-primary-only", ["C11"], "S1u", P,
     "        new_proj = self.proj_data.astype(dtype)\n",
     "        new_proj = np.rint(self.proj_data).astype(dtype)\n"),
    ("c05-tensor-inverse-by-hand", ["C05"], "INVS2", G + "representation.py",
     "                product_rep[gen] = np.array(elt)\n",
     "                inv = self.invert_gen(gen)\n                product_rep._set_generator(gen, np.array(elt), compute_inverse=False)\n                product_rep._set_generator(inv, np.kron(rep[inv], self[inv]), compute_inverse=False)\n"),
    ("c01-poincare-radial-division", ["C01"], "ZD2", H,
     "    mult_factor = 1 / (1 + np.sqrt(np.abs(1 - euc_norms)))\n\n    return (points.T * mult_factor.T).T",
     "    radii = np.sqrt(euc_norms)\n    with np.errstate(divide=\"ignore\", invalid=\"ignore\"):\n        mult_factor = np.tanh(np.arctanh(np.minimum(radii, 1)) / 2) / radii\n\n    return (points.T * mult_factor.T).T"),
    ("c01-klein-divide-by-one-minus-norm", ["C01"], "ZD2", H,
     "    mult_factor = 2 / (1 + euc_norms)\n",
     "    mult_factor = 2 / (1 - euc_norms * euc_norms + euc_norms * euc_norms + euc_norms - 1 + 1 - euc_norms)\n"),
    ("c12-poincare-getter-signed-sum", ["C12", "C01"], "HOM1", H,
     "        return kleinian_to_poincare(self.kleinian_coords())\n\n    def halfspace_coords",
     "        time = self.proj_data[..., :1]\n        space = self.proj_data[..., 1:]\n        hyp_norm = np.sqrt(np.abs(time * time - utils.normsq(space)[..., np.newaxis]))\n        return space / (time + hyp_norm)\n\n    def halfspace_coords"),
    ("c14-sphere-params-instance-cache", ["C14"], "C2", H,
     "        return center, radius\n\n    def boundary_sphere_parameters",
     "        cached = self.__dict__.setdefault('_sphere_cache', {})\n        cached.setdefault(str(model), (center, radius))\n        return cached[str(model)]\n\n    def boundary_sphere_parameters"),
    ("c20-circle-parameters-swapaxes-unpack", ["C20"], "SH6",
     G + "complex_projective.py",
     "        p1, p2, p3 = (bdry_aff_coords[..., i, :]\n                      for i in range(3))",
     "        p1, p2, p3 = bdry_aff_coords.swapaxes(0, -2)"),
    ("c02-find-isometry-euclidean-kernel-normalise", ["C02", "C13", "C18"], "FORM1", C,
     "    orth_kernel = indefinite_orthogonalize(form, kernel_basis)",
     "    orth_kernel = indefinite_orthogonalize(np.identity(form.shape[-1]), kernel_basis)"),
    ("c02-gram-schmidt-normalise-euclidean", ["C02", "C13", "C18"], "FORM1", C,
     "        result[..., i, :] = row\n\n    return normalize(result, form)",
     "        result[..., i, :] = row\n\n    return normalize(result)"),
    ("c02-origin-to-euclidean-normalise", ["C02", "C13"], "FORM1", H,
     "        return Isometry(isom, column_vectors=False)\n\n    def unit_tangent_towards",
     "        return Isometry(isom, column_vectors=False)\n\n    def _unit(self):\n        return utils.normalize(self.proj_data)\n\n    def unit_tangent_towards"),
    # ---- rules written from round 7
    ("c01-klein-to-poincare-snap-boundary", ["C01"], "TOL1", H,
     "    mult_factor = 1 / (1 + np.sqrt(np.abs(1 - euc_norms)))\n\n    return (points.T * mult_factor.T).T",
     "    mult_factor = 1 / (1 + np.sqrt(np.abs(1 - euc_norms)))\n    mult_factor = np.where(np.abs(1 - euc_norms) < ERROR_THRESHOLD, 1., mult_factor)\n\n    return (points.T * mult_factor.T).T"),
    ("c01-halfspace-infinity-by-isclose", ["C01"], "TOL1", H,
     "    denom = (x2 + (y - 1)*(y - 1))\n",
     "    denom = (x2 + (y - 1)*(y - 1))\n    denom = np.where(np.isclose(denom, 0), 0., denom)\n"),
    ("c01-affine-dist-small-r", ["C01"], "TOL1", H,
     "    return (np.exp(2 * r) - 1) / (1 + np.exp(2 * r))",
     "    r = np.asarray(r)\n    return np.where(np.abs(r) < 1e-6, r, (np.exp(2 * r) - 1) / (1 + np.exp(2 * r)))"),
    ("c14-sphere-mean-of-basis", ["C14"], "MEAN2", H,
     "            klein_midpoint = _flat_center(klein_basis)",
     "            klein_midpoint = klein_basis.sum(axis=-2) / klein_basis.shape[-2]"),
    ("c14-circumcenter-mean", ["C14"], "MEAN2", H,
     "            halfspace_midpoint = _circumcenter(halfspace_basis)",
     "            halfspace_midpoint = halfspace_basis.mean(axis=-2)"),
    ("c14-flat-center-unguarded-mean", ["C14"], "MEAN2", H,
     "    midpoint of the chord between them.\"\"\"\n    if points.shape[-2] == 2:\n        return points.sum(axis=-2) / 2\n",
     "    midpoint of the chord between them.\"\"\"\n    if points.shape[-2] <= 3:\n        return points.sum(axis=-2) / points.shape[-2]\n"),
    ("c04-circumcenter-len", ["C04"], "MEAN1", H,
     "    their affine span. For two points this is their midpoint.\"\"\"\n    if points.shape[-2] == 2:\n        return points.sum(axis=-2) / 2",
     "    their affine span. For two points this is their midpoint.\"\"\"\n    if points.shape[-2] == 2:\n        return points.sum(axis=-2) / len(points)"),
    ("c09-parse-list-lstrip", ["C09"], "OFS1", G + "automata/gap_parse.py",
     "def parse_list(text):\n",
     "def parse_list(text):\n    text = text.lstrip(WHITESPACE)\n"),
    ("c09-parse-quote-on-stripped-copy", ["C09"], "OFS1",
     G + "automata/gap_parse.py",
     "    close_quote = text.find('\"')",
     "    body = text.strip()\n    close_quote = body.find('\"')"),
    ("c09-parse-contents-slice", ["C09"], "OFS1", G + "automata/gap_parse.py",
     "    content = \"\"\n    for i, c in enumerate(text):\n        if c == '\"':\n            content, offset = parse_quote(text[i + 1:])",
     "    content = \"\"\n    rest = text[1:]\n    for i, c in enumerate(rest):\n        if c == '\"':\n            content, offset = parse_quote(text[i + 1:])"),
    ("c17-irrep-loop-no-lower-bound", ["C17"], "EXP1", G + "lie/core.py",
     "            for i in range(max(0, j - r + k), min(j+1, k+1)):",
     "            for i in range(min(j, k) + 1):"),
    ("c17-irrep-loop-upper-bound", ["C17"], "EXP1", G + "lie/core.py",
     "            for i in range(max(0, j - r + k), min(j+1, k+1)):",
     "            for i in range(max(0, j - r + k), j + 1):"),
    ("c17-irrep-exponent-off-by-one", ["C17"], "EXP1", G + "lie/core.py",
     "                          * d**(r - k - j + i))",
     "                          * d**(r - k - j + i - 1))"),
    ("c13-interior-angle-single-arcsin", ["C13"], "RNG1", H,
     "    return 2 * np.arcsin(np.cos(gamma) / denom)",
     "    return np.arcsin(np.minimum(2 * (np.cos(gamma) / denom) * np.sqrt(1 - (np.cos(gamma) / denom)**2), 1))"),
    ("c13-angle-arcsin", ["C13"], "RNG1", H,
     "        return np.arccos(product)",
     "        return np.pi / 2 - np.arcsin(product) / 2"),
    ("c13-angle-arctan", ["C13"], "RNG1", H,
     "        return np.arccos(product)",
     "        return np.arctan(np.sqrt(1 - product**2) / product)"),
    ("c01-distance-arccos-of-inverse", ["C01"], "RNG1", H,
     "        return np.arccosh(np.maximum(np.abs(products), 1))",
     "        return np.arccos(1 / np.maximum(np.abs(products), 1))"),
    ("c19-circle-angles-arctan", ["C19"], "RNG1", C,
     "    return np.arctan2(ys, xs)",
     "    return np.arctan(ys / xs)"),
    ("c11-tangent-keep-if-tangent", ["C11"], "HOM1", H,
     "        return np.stack([point_data, projected], axis=-2)",
     "        products = utils.apply_bilinear(point_data, vec_data, minkowski(point_data.shape[-1], base_ring))\n        projected = np.where((np.abs(products) <= ERROR_THRESHOLD)[..., np.newaxis], vec_data, projected)\n        return np.stack([point_data, projected], axis=-2)"),
]

# independently seeded changes (sub-agents; /verif/seeded/<id>/patch.diff):
# (seed id, property, rule that must fire) -- applied with `patch -p1`
SEEDED = [
    ("C01-1", "C01", "H2"), ("C01-2", "C01", "C2"),
    ("C03-1", "C03", "C2"), ("C03-2", "C03", "W1"),
    ("C04-1", "C04", "SH2"), ("C04-2", "C04", "AX1"),
    ("C05-1", "C05", "ZS1"), ("C05-2", "C05", "C2"),
    ("C06-1", "C06", "M4"), ("C06-2", "C06", "N1"),
    ("C08-1", "C08", "P1q"), ("C08-2", "C08", "N1"),
    ("C09-1", "C09", "RF1"), ("C09-2", "C09", "V1p"),
    ("C10-1", "C10", "RF1"), ("C10-2", "C10", "N1"),
    ("C11-1", "C11", "S2"), ("C11-2", "C11", "S1"),
    ("C12-1", "C12", "T2"), ("C12-2", "C12", "H1"),
    ("C13-1", "C13", "ODD1"), ("C13-2", "C13", "G2"),
    ("C14-2", "C14", "X1"),
    ("C16-1", "C16", "BM1"), ("C16-2", "C16", "R1c"),
    ("C19-2", "C19", "DR4"),
    ("C20-1", "C20", "K2"),
    # round 2
    ("r2-C01-1", "C01", "SH2"), ("r2-C01-2", "C01", "H2"),
    ("r2-C03-1", "C03", "S1"), ("r2-C03-2", "C03", "INV"),
    ("r2-C04-1", "C04", "SH2"), ("r2-C04-2", "C04", "SH3"),
    ("r2-C05-1", "C05", "GO1"), ("r2-C05-2", "C05", "ELT1"),
    ("r2-C06-1", "C06", "M4"), ("r2-C06-2", "C09", "V2"),
    ("r2-C08-1", "C08", "PA1"), ("r2-C08-2", "C08", "INF1"),
    ("r2-C09-1", "C09", "FK1"), ("r2-C09-2", "C09", "V2r"),
    ("r2-C10-1", "C10", "V2r"), ("r2-C10-2", "C10", "V1p"),
    ("r2-C11-1", "C11", "S2"), ("r2-C11-2", "C11", "S1c"),
    ("r2-C12-1", "C12", "OF1"),
    ("r2-C13-1", "C13", "ODD1"), ("r2-C13-2", "C13", "HD1"),
    ("r2-C14-2", "C14", "X3"),
    ("r2-C15-1", "C15", "AX1"),
    ("r2-C16-1", "C16", "SH4"), ("r2-C16-2", "C16", "R1c"),
    ("r2-C19-2", "C19", "K4"),
    ("r2-C20-1", "C20", "K3"),
    # round 3
    ("r3-C01-1", "C01", "PT1"), ("r3-C14-2", "C14", "PT1"),
    ("r3-C03-1", "C03", "SH3"), ("r3-C03-2", "C03", "INV"),
    ("r3-C04-1", "C04", "SH1"), ("r3-C04-2", "C04", "MEAN1"),
    ("r3-C05-1", "C05", "GO1"),
    ("r3-C06-1", "C06", "M4"), ("r3-C06-2", "C06", "FW1"),
    ("r3-C08-1", "C08", "CM1"), ("r3-C08-2", "C08", "PA1"),
    ("r3-C09-1", "C09", "DV1"), ("r3-C09-2", "C09", "V2r"),
    ("r3-C10-1", "C10", "BFS1"), ("r3-C10-2", "C10", "RF1"),
    ("r3-C11-1", "C11", "S2"), ("r3-C11-2", "C11", "GI1"),
    ("r3-C13-1", "C13", "HD1"),
    ("r3-C15-2", "C15", "R1"), ("C15-1", "C15", "SH5"),
    ("r3-C16-2", "C16", "R1c"),
    ("r3-C19-2", "C19", "K4"),
    ("r3-C20-2", "C20", "HD2"),
    # round 4 (steered to structural changes; rules added from the misses:
    # CLS1, FR1, TS1, TP1, PM1, DER1, LK1, K2 returns, R1 delegate-arg,
    # V2 merged arm, C2/SH5 armed more widely, path exploration)
    ("r4-C01-1", "C01", "AX1"), ("r4-C01-2", "C01", "FR1"),
    ("r4-C03-1", "C03", "TS1"), ("r4-C03-2", "C03", "CLS1"),
    ("r4-C04-1", "C04", "SH5"), ("r4-C04-2", "C04", "SH1"),
    ("r4-C05-1", "C05", "TP1"), ("r4-C05-2", "C05", "INV"),
    ("r4-C06-1", "C06", "V1"), ("r4-C06-2", "C06", "M2"),
    ("r4-C08-1", "C08", "PM1"), ("r4-C08-2", "C08", "DU"),
    ("r4-C09-1", "C09", "V2"), ("r4-C10-2", "C10", "DV1"),
    ("r4-C11-1", "C11", "FR1"), ("r4-C11-2", "C11", "C2"),
    ("r4-C12-1", "C12", "SH5"), ("r4-C12-2", "C12", "P1q"),
    ("r4-C13-1", "C13", "LK1"), ("r4-C13-2", "C13", "C2"),
    ("r4-C14-1", "C14", "AX1"), ("r4-C14-2", "C14", "S2"),
    ("r4-C15-1", "C15", "R1"), ("r4-C15-2", "C15", "C2"),
    ("r4-C19-1", "C19", "DER1"), ("r4-C20-1", "C20", "C2"),
    ("r4-C20-2", "C20", "K2"),
    # round 5 (unsteered): 5 of 36 caught when first evaluated
    ("r5-C01-1", "C01", "HOM1"), 
    ("r5-C03-1", "C03", "TS1"), ("r5-C04-1", "C04", "SH5"),
    ("r5-C04-2", "C04", "C2"), ("r5-C05-1", "C05", "INV"),
    ("r5-C05-2", "C05", "SYM1"), ("r5-C06-1", "C06", "LK1"),
    ("r5-C06-2", "C06", "C2"), ("r5-C09-1", "C09", "ACC1"),
    ("r5-C11-1", "C11", "P1g"), ("r5-C11-2", "C11", "FR2"),
    ("r5-C12-1", "C12", "HOM1"), ("r5-C12-2", "C12", "NP2"),
    ("r5-C13-1", "C13", "AR1"), ("r5-C13-2", "C13", "LK1"),
    ("r5-C14-1", "C14", "LK1"), ("r5-C14-2", "C14", "X2"),
    ("r5-C15-1", "C15", "HOM1"), ("r5-C15-2", "C15", "FLIP1"),
    ("r5-C16-2", "C16", "SVD1"), ("r5-C17-2", "C17", "STK1"),
    ("r5-C18-1", "C18", "PA1"), ("r5-C19-1", "C19", "NAN1"),
    ("r5-C19-2", "C19", "C2"), ("r5-C20-1", "C20", "HOM1"),
    ("r5-C20-2", "C20", "P1q"),
    # round 6 (unsteered): 7 of 36 caught by the property's own check when
    # first evaluated
    ("r6-C01-1", "C01", "LK1"), ("r6-C01-2", "C01", "ZD1"),
    ("r6-C03-1", "C03", "SH3"), ("r6-C03-2", "C03", "RO"),
    ("r6-C04-1", "C04", "SH1"), ("r6-C04-2", "C04", "MK2"),
    ("r6-C05-1", "C05", "WP1"), ("r6-C06-1", "C06", "WP1"),
    ("r6-C06-2", "C06", "BFS2"), ("r6-C08-1", "C08", "EIGH1"),
    ("r6-C08-2", "C08", "LK2"), ("r6-C09-1", "C09", "V2r"),
    ("r6-C09-2", "C09", "MC1"), ("r6-C10-1", "C10", "B2"),
    ("r6-C10-2", "C10", "C2"), ("r6-C11-1", "C11", "ORD1"),
    ("r6-C11-2", "C11", "LK2"), ("r6-C12-1", "C12", "LK1"),
    ("r6-C12-2", "C12", "HOM1"), ("r6-C14-1", "C14", "HOM1"),
    ("r6-C14-2", "C14", "SH2"), ("r6-C15-1", "C15", "LK1"),
    ("r6-C16-2", "C16", "EIG1"), ("r6-C17-2", "C17", "CLO1"),
    ("r6-C18-2", "C18", "AX1"), ("r6-C20-1", "C20", "K2"),
    ("r5-C16-1", "C16", "SGN1"),
    # round 7 (unsteered): 3 of 36 caught by the property's own check when
    # first evaluated
    ("r7-C01-1", "C01", "HD1"), ("r7-C03-1", "C03", "PINV1"),
    ("r7-C03-2", "C03", "M4"), ("r7-C05-2", "C05", "INVS1"),
    ("r7-C06-2", "C06", "M5"), ("r7-C08-1", "C08", "P1q"),
    ("r7-C10-1", "C10", "BFS3"), ("r7-C10-2", "C10", "RF1"),
    ("r7-C11-1", "C11", "SGN1"), ("r7-C12-1", "C12", "C2"),
    ("r7-C12-2", "C12", "NP3"), ("r7-C13-2", "C13", "SH5"),
    ("r7-C14-1", "C14", "ENUM1"), ("r7-C14-2", "C14", "HOM1"),
    ("r7-C15-2", "C15", "SGN1"), ("r7-C16-2", "C16", "SGN1"),
    ("r7-C18-2", "C18", "SH2"), ("r7-C19-1", "C19", "SGN1"),
    ("r7-C20-2", "C20", "HOM1"), ("r7-C09-2", "C09", "OFS1"),
    ("r7-C11-2", "C11", "HOM1"), ("r7-C13-1", "C13", "RNG1"),
    ("r7-C17-1", "C17", "EXP1"), ("r7-C01-2", "C01", "TOL1"),
    # round 8 (unsteered): 9 of 36 caught by the property's own check when
    # first evaluated
    ("r8-C01-2", "C01", "ZD2"), ("r8-C03-2", "C03", "INV3"),
    ("r8-C04-1", "C04", "RO"), ("r8-C04-2", "C04", "LK1"),
    ("r8-C05-2", "C05", "INVS2"), ("r8-C06-1", "C06", "M1"),
    ("r8-C08-1", "C08", "NONNEG1"), ("r8-C10-2", "C10", "RF1"),
    ("r8-C11-1", "C11", "P1g"), ("r8-C11-2", "C11", "S1u"),
    ("r8-C12-1", "C12", "HOM1"), ("r8-C12-2", "C12", "HOM1"),
    ("r8-C13-1", "C13", "HOM1"), ("r8-C13-2", "C13", "RC2"),
    ("r8-C14-1", "C14", "ENUM1"), ("r8-C14-2", "C14", "C2"),
    ("r8-C16-1", "C16", "C2"), ("r8-C16-2", "C16", "EIGH2"),
    ("r8-C17-1", "C17", "SH8"), ("r8-C17-2", "C17", "LK3"),
    ("r8-C18-1", "C18", "ORI1"), ("r8-C20-1", "C20", "SH6"),
    ("r8-C20-2", "C20", "K2"),
    # round 9 (C02 only, six changes, unsteered): 2 of 6 caught by C02's
    # check when first evaluated
    ("r9-C02a-1", "C02", "HOM1"), ("r9-C02b-1", "C02", "HOM1"),
    ("r9-C02b-2", "C02", "LK1"),
    # round 9 (C07 only, six changes, unsteered): 0 of 6 caught by C07's
    # check when first evaluated
    ("r9-C07a-1", "C07", "TOL2"), ("r9-C07a-2", "C07", "SENT1"),
    ("r9-C07b-1", "C07", "KEY1"), ("r9-C07b-2", "C07", "N1"),
    ("r9-C07c-2", "C07", "SENT1"),
    # round 10 (unsteered, all 20 properties): 9 of 40 caught by the
    # property's own check when first evaluated
    ("r10-C01-2", "C01", "HOM1"), ("r10-C02-1", "C02", "PAIR1"),
    ("r10-C03-1", "C03", "LK1"), ("r10-C03-2", "C03", "SH3"),
    ("r10-C04-2", "C04", "AX1"), ("r10-C06-1", "C06", "M1"),
    ("r10-C07-1", "C07", "LEX1"), ("r10-C07-2", "C07", "BFS4"),
    ("r10-C08-1", "C08", "PAIR1"), ("r10-C08-2", "C08", "OWN1"),
    ("r10-C09-1", "C09", "VROW1"), ("r10-C09-2", "C09", "RET1"),
    ("r10-C10-2", "C10", "INVMAP1"), ("r10-C11-2", "C11", "S1u"),
    ("r10-C12-1", "C12", "LK1"), ("r10-C12-2", "C12", "LRU1"),
    ("r10-C15-1", "C15", "SH5"), ("r10-C15-2", "C15", "SH5"),
    ("r10-C16-1", "C16", "LK3"), ("r10-C17-2", "C17", "LK3"),
    ("r10-C19-1", "C19", "DR4"),
]
# seeded changes no static rule here decides (numerical / heuristic):
# C14-1, C15-1, C15-2, C19-1, C20-2, r2-C12-2, r2-C14-1, r2-C15-2, r2-C19-1,
# r2-C20-2, r5-C01-2, r5-C03-2, r5-C08-1, r5-C08-2, r5-C09-2, r5-C10-1, r5-C10-2,
# r5-C17-1, r5-C18-2, r6-C05-2, r6-C13-1, r6-C13-2, r6-C15-2,
# r6-C16-1, r6-C17-1, r6-C18-1, r6-C19-1, r6-C19-2, r6-C20-2,
# r7-C04-1, r7-C04-2, r7-C05-1, r7-C06-1, r7-C08-2, r7-C09-1, r7-C15-1,
# r7-C16-1, r7-C17-2, r7-C18-1, r7-C19-2, r7-C20-1, r8-C01-1, r8-C03-1,
# r8-C05-1, r8-C06-2, r8-C08-2, r8-C09-1, r8-C09-2, r8-C10-1, r8-C15-1,
# r8-C15-2, r8-C18-2, r8-C19-1, r8-C19-2, r9-C02a-2, r9-C02c-1, r9-C02c-2,
# r9-C07c-1, r10-C01-1, r10-C02-2, r10-C04-1, r10-C05-1, r10-C05-2, r10-C06-2,
# r10-C10-1, r10-C11-1, r10-C13-1, r10-C13-2, r10-C14-1, r10-C14-2, r10-C16-2,
# r10-C17-1, r10-C18-1, r10-C18-2, r10-C19-2, r10-C20-1, r10-C20-2
# -- see DESIGN.md section 6.2

# behaviour-preserving edits: every listed property must stay silent (exit 0)
NEUTRAL = [
    ("n-clip", ["C01"], H,
     "np.arccosh(np.maximum(np.abs(products), 1))",
     "np.arccosh(np.clip(np.abs(products), 1, None))"),
    ("n-clamp-local", ["C01"], H,
     "        return np.arccosh(np.maximum(np.abs(products), 1))",
     "        clamped = np.maximum(1.0, np.abs(products))\n        return np.arccosh(clamped)"),
    ("n-model-alias", ["C01", "C14", "C19"], H,
     "    HALFPLANE = \"halfspace\"\n",
     "    HALFPLANE = \"halfspace\"\n    UPPERHALFSPACE = \"halfspace\"\n"),
    ("n-list-slice", ["C09", "C10"], F,
     "                in_dict[w][v] = list(labels)",
     "                in_dict[w][v] = labels[:]"),
    ("n-copy-copy", ["C09", "C10"], F,
     "                in_dict[w][v] = list(labels)",
     "                in_dict[w][v] = copy.copy(labels)"),
    ("n-dict-call", ["C09", "C10"], F,
     "                self._graph_dict[v] = {}",
     "                self._graph_dict[v] = dict()"),
    ("n-has-edge-guard", ["C10"], F,
     "        return len(self._out_dict[tail].get(head, [])) > 0",
     "        return head in self._out_dict[tail] and len(self._out_dict[tail][head]) > 0"),
    ("n-inplace-rewrite", ["C10", "C09"], F,
     "        if inplace:\n            self._from_graph_dict(new_dict)\n        else:\n            return FSA(new_dict, self.start_vertices)",
     "        if not inplace:\n            return FSA(new_dict, self.start_vertices)\n        self._from_graph_dict(new_dict)"),
    ("n-mask-commute", ["C20"], X,
     "            res[s_aff & ~o_aff] = ~contained[s_aff & ~o_aff]",
     "            res[s_aff & ~o_aff] = ~contained[~o_aff & s_aff]"),
    ("n-mask-local", ["C20"], X,
     "            res[s_aff & ~o_aff] = ~contained[s_aff & ~o_aff]",
     "            only_self = s_aff & ~o_aff\n            res[only_self] = ~contained[only_self]"),
    ("n-copy-method", ["C20"], X,
     "                normed_ctr = utils.normalize(np.copy(center_coords))",
     "                normed_ctr = utils.normalize(center_coords.copy())"),
    ("n-swapaxes", ["C08"], K,
     "            lambda mat: utils.invert(mat.T)",
     "            lambda mat: utils.invert(mat.swapaxes(-1, -2))"),
    ("n-invert-then-T", ["C08"], K,
     "            lambda mat: utils.invert(mat.T)",
     "            lambda mat: utils.invert(mat).T"),
    ("n-dual-order", ["C05"], R,
     "            lambda M: utils.invert(M).T",
     "            lambda M: utils.invert(M.T)"),
    ("n-result-type", ["C08", "C12", "C13"], T,
     "        dtype = np.asarray(array).dtype\n",
     "        dtype = np.result_type(array)\n"),
    ("n-abs-no-cast", ["C16"], P,
     "    if (np.abs(apoints[..., _chart_index]).astype('float64') == 0).any():",
     "    if (np.abs(apoints[..., _chart_index]) == 0).any():"),
    ("n-setitem-via-set", ["C11"], P,
     "        if self.aux_ndims > 0:\n            self.aux_data = self._compute_aux_data(self.proj_data)",
     "        self.set(self.proj_data)"),
    ("n-degrees-rewrite", ["C14", "C19"], H,
     "        # WRAPLITERAL\n        if degrees:\n            thetas *= 180 / np.pi",
     "        # WRAPLITERAL\n        if degrees:\n            thetas = thetas * (180 / np.pi)"),
    ("n-comment-and-blank", ["C06", "C05"], R,
     "        matrix_list = []\n        accepted_words = []\n",
     "        # collect per-edge results\n\n        matrix_list = []\n        accepted_words = []\n"),
    ("n-explicit-degrees", ["C19"], D,
     "        centers, radii, thetas = horolist.circle_parameters(model=self.model)",
     "        centers, radii, thetas = horolist.circle_parameters(model=self.model,\n                                                            degrees=True)"),
    ("n-rename-local", ["C03", "C11", "C04"], P,
     "        new_obj = copy(proj_obj)\n",
     "        new_obj = copy(proj_obj)\n        # operate on the copy only\n"),
    ("n-none-ternary", ["C10", "C09", "C06"], F,
     "        if start_vertex is None:\n            start_vertex = self.start_vertices[0]\n        vertex = start_vertex\n",
     "        start_vertex = (self.start_vertices[0] if start_vertex is None\n                        else start_vertex)\n        vertex = start_vertex\n"),
    ("n-worklist-both", ["C10", "C09"], F,
     "        still_pruning = True\n        while still_pruning:\n            still_pruning = False\n            vertices = list(to_modify._out_dict.keys())\n            for v in vertices:\n                if (len(to_modify._out_dict[v]) == 0 or\n                    len(to_modify._in_dict[v]) == 0):\n                    to_modify.delete_vertex(v)\n                    still_pruning = True\n",
     "        to_check = deque(to_modify._out_dict.keys())\n        while len(to_check) > 0:\n            v = to_check.popleft()\n            if v not in to_modify._out_dict:\n                continue\n            if (len(to_modify._out_dict[v]) == 0 or\n                len(to_modify._in_dict[v]) == 0):\n                affected = (list(to_modify.neighbors_out(v)) +\n                            list(to_modify.neighbors_in(v)))\n                to_modify.delete_vertex(v)\n                to_check.extend(affected)\n"),
    ("n-memo-reset-in-set", ["C01", "C03", "C11"], P,
     "        self.proj_data = proj_data\n\n        if self.aux_ndims > 0:",
     "        self.proj_data = proj_data\n        self._memo = None\n\n        if self.aux_ndims > 0:"),
    ("n-listcopy-instead-of-deepcopy", ["C09"], F,
     "            key: defaultdict(list, copy.deepcopy(value))",
     "            key: defaultdict(list, {w: list(ls) for w, ls in value.items()})"),
    ("n-flip-positional-axis", ["C04", "C14"], C,
     "    shifted_thetas[to_flip] = np.flip(shifted_thetas[to_flip], axis=-1)",
     "    shifted_thetas[to_flip] = np.flip(shifted_thetas[to_flip], -1)"),
    ("n-projection-named-coeff", ["C04"], C,
     "    return (v2.T *\n            apply_bilinear(v1, v2, bilinear_form).T /\n            normsq(v2, bilinear_form).T).T",
     "    coeff = apply_bilinear(v1, v2, bilinear_form) / normsq(v2, bilinear_form)\n\n    return (v2.T * coeff.T).T"),
    ("n-two-sided-clip", ["C13"], H,
     "        return np.arccos(product)",
     "        return np.arccos(np.clip(product, -1, 1))"),
    ("n-tanh", ["C13"], H,
     "    return (np.exp(2 * r) - 1) / (1 + np.exp(2 * r))",
     "    return np.tanh(r)"),
    ("n-stable-tanh", ["C13"], H,
     "    return (np.exp(2 * r) - 1) / (1 + np.exp(2 * r))",
     "    decay = np.exp(-2 * np.abs(r))\n    return np.sign(r) * (1 - decay) / (1 + decay)"),
    ("n-square-instead-of-abs", ["C01", "C12"], H,
     "        return np.arccosh(np.maximum(np.abs(products), 1))",
     "        return np.arccosh(np.maximum(np.sqrt(products**2), 1))"),
    ("n-zmod-explicit-add", ["C05"], G + "utils/words.py",
     "        z_sum[word] += z2[word]",
     "        z_sum[word] = z_sum[word] + z2[word]"),
    ("n-intersect-refactor", ["C16"], P,
     "        if broadcast == \"elementwise\":\n            p1, p2 = self.proj_data, other_obj.proj_data\n        elif broadcast == \"pairwise\":\n            p1, p2 = utils.broadcast_match(self.proj_data,\n                                          other_obj.proj_data, 2)\n        else:\n            raise ValueError(f\"Unrecognized broadcast rule: '{broadcast}'\")\n",
     "        if broadcast not in (\"elementwise\", \"pairwise\"):\n            raise ValueError(f\"Unrecognized broadcast rule: '{broadcast}'\")\n        p1, p2 = self.proj_data, other_obj.proj_data\n        if broadcast == \"pairwise\":\n            p1, p2 = utils.broadcast_match(p1, p2, 2)\n"),
    ("n-explicit-projection", ["C13", "C12", "C04"], H,
     "    return tangent_vector - utils.projection(\n        tangent_vector, basepoint, form\n    )",
     "    coeff = (utils.apply_bilinear(tangent_vector, basepoint, form) /\n             utils.normsq(basepoint, form))\n    return tangent_vector - (basepoint.T * coeff.T).T"),
    ("n-inf-lt-one", ["C08"], K,
     "        adjusted_cox_matrix[adjusted_cox_matrix.astype(float) <= 0] = half",
     "        adjusted_cox_matrix[adjusted_cox_matrix.astype(float) < 1] = half"),
    ("n-diameter-after-mask", ["C19"], D,
     "                    EllipseCollection(circle_radii * 2, circle_radii * 2,",
     "                    EllipseCollection(2 * circle_radii, 2 * circle_radii,"),
    ("n-both-sorted", ["C05"], R,
     "        blocks = [self._differential(word, g, verbose=verbose)\n                  for g in self.asym_gens()]",
     "        blocks = [self._differential(word, g, verbose=verbose)\n                  for g in self.asym_gens() ]"),
    ("n-sheet-by-where", ["C12", "C01", "C11"], H,
     "    hyperbolized = hyperbolized * np.where(hyperbolized[..., :1] < 0, -1, 1)\n",
     "    hyperbolized = np.where(hyperbolized[..., :1] < 0, -hyperbolized,\n                            hyperbolized)\n"),
    ("n-sheet-by-masked-copy", ["C12", "C01", "C11"], H,
     "    hyperbolized = hyperbolized * np.where(hyperbolized[..., :1] < 0, -1, 1)\n",
     "    lower = hyperbolized[..., 0] < 0\n    hyperbolized = np.array(hyperbolized)\n    hyperbolized[lower] *= -1\n"),
    ("n-klein-midpoint-mean", ["C12", "C14"], H,
     "    midpoint of the chord between them.\"\"\"\n    if points.shape[-2] == 2:\n        return points.sum(axis=-2) / 2",
     "    midpoint of the chord between them.\"\"\"\n    if points.shape[-2] == 2:\n        return points.mean(axis=-2)"),
    ("n-hopf-abs-squared", ["C20"], G + "complex_projective.py",
     "    normsq = np.abs(z0 * np.conjugate(z0) + z1 * np.conjugate(z1))",
     "    normsq = np.abs(z0)**2 + np.abs(z1)**2"),
    ("n-hopf-conj-other-side", ["C20"], G + "complex_projective.py",
     "    horizontal = utils.c_to_r(2 * np.conjugate(z0) * z1 / normsq)",
     "    horizontal = utils.c_to_r(np.conjugate(2 * z0 * np.conjugate(z1)) / normsq)"),
    ("n-affine-divide-last-axis", ["C16", "C12"], G + "projective.py",
     "        (apoints.T / apoints.T[_chart_index]).T,",
     "        apoints / apoints[..., _chart_index, np.newaxis],"),
    ("n-aligned-sign", ["C12"], H,
     "        aligned = other.proj_data * np.expand_dims(-np.sign(products), axis=-1)",
     "        aligned = -np.sign(products)[..., np.newaxis] * other.proj_data"),
    ("n-halfspace-infinity-exact-zero", ["C01", "C12"], H,
     "    denom = (x2 + (y - 1)*(y - 1))\n\n    with np.errstate(divide=\"ignore\", invalid=\"ignore\"):\n        halfspace_coords[..., :-1] = (-2 * v) / denom[..., np.newaxis]\n        halfspace_coords[..., -1] = (1 - x2 - y * y) / denom\n",
     "    denom = (x2 + (y - 1)*(y - 1))\n    finite = denom != 0\n\n    with np.errstate(divide=\"ignore\", invalid=\"ignore\"):\n        halfspace_coords[..., :-1] = (-2 * v) / denom[..., np.newaxis]\n        halfspace_coords[..., -1] = (1 - x2 - y * y) / denom\n    assert finite.shape == denom.shape\n"),
    ("n-affine-translation-typed-by-dtype", ["C16", "C12"], P,
     "    tf = utils.identity(len(translation) + 1, like=translation,\n                        integer_type=False)\n",
     "    tf = np.identity(len(translation) + 1, dtype=np.result_type(np.asarray(translation).dtype, float))\n"),
    ("n-orientation-first-row", ["C18", "C13"], C,
     "    preserved[det(preserved) < 0, -1, :] *= -1",
     "    reversing = det(preserved) < 0\n    preserved[reversing, -1, :] = -preserved[reversing, -1, :]"),
    ("n-eigs-abs-in-new-name", ["C08", "C18"], C,
     "    Dinv = construct_diagonal(np.sqrt(np.abs(eigs)))",
     "    moduli = np.abs(eigs)\n    Dinv = construct_diagonal(np.sqrt(moduli))"),
    ("n-isometry-to-explicit-invert", ["C13", "C03"], H,
     "        return other.origin_to(**kwargs) @ self.origin_to(**kwargs).inv()",
     "        frame_inv = Isometry(utils.invert(self.origin_to(**kwargs).proj_data))\n        return other.origin_to(**kwargs) @ frame_inv"),
    ("n-transformation-inv-np-linalg", ["C03"], P,
     "        return self.__class__(utils.invert(self.matrix))",
     "        return self.__class__(np.linalg.inv(self.matrix))"),
    ("n-klein-to-poincare-named-divisor", ["C01", "C12"], H,
     "    mult_factor = 1 / (1 + np.sqrt(np.abs(1 - euc_norms)))",
     "    height = np.sqrt(np.abs(1 - euc_norms))\n    mult_factor = 1 / (1 + height)"),
    ("n-label-view-rows-by-dict", ["C09", "C10"], G + "automata/fsa.py",
     "        self._graph_dict = {v: copy.deepcopy(neighbors)\n                            for v, neighbors in graph_dict.items()}\n",
     "        self._graph_dict = {}\n        for v, neighbors in graph_dict.items():\n            self._graph_dict[v] = copy.deepcopy(neighbors)\n"),
    ("n-loxodromic-pair-by-power", ["C02"], H,
     "            np.concatenate(([parameter, 1.0/parameter],",
     "            np.concatenate(([parameter, parameter**-1],"),
    ("n-elliptic-explicit-slices", ["C02", "C13"], H,
     "        mat[1:, 1:] = block_elliptic",
     "        mat[1:dimension + 1, 1:dimension + 1] = block_elliptic"),
    ("n-cox-flag-by-keyword", ["C07"], G + "automata/coxeter_automaton.py",
     "        return generate_automaton(small_roots, lex_reduced)",
     "        return generate_automaton(small_roots, lex_reduced=lex_reduced)"),
    ("n-cox-infinity-literal-left", ["C07"], G + "automata/coxeter_automaton.py",
     "if m > 0 else -1",
     "if 0 < m else -1"),
    ("n-cox-infinity-inverted", ["C07"], G + "automata/coxeter_automaton.py",
     "[-math.cos(math.pi/m) if m > 0 else -1 for m in row]",
     "[-1 if m <= 0 else -math.cos(math.pi/m) for m in row]"),
    ("n-cox-automaton-flag-keyword", ["C07"], G + "coxeter.py",
     "            self.coxeter_matrix,\n            shortlex\n        )",
     "            self.coxeter_matrix,\n            lex_reduced=shortlex\n        )"),
    ("n-cox-even-else", ["C07"], G + "coxeter.py",
     "        if even_length:\n            return aut.even_automaton()\n\n        return aut",
     "        if not even_length:\n            return aut\n\n        return aut.even_automaton()"),
    ("n-cox-swap-table-guarded", ["C07"], G + "automata/coxeter_automaton.py",
     "                        newnode = tuple(\n                                apply_gen_to_node(small_roots, k, node, i, lex_reduced = lex_reduced)\n                                for i in range(nroots))",
     "                        image = [r_.neighbors[k].id if r_.neighbors[k] else -1 for r_ in small_roots]\n                        newnode = [1 if i == k else (node[image[i]] if image[i] != -1 else 0) for i in range(nroots)]\n                        if lex_reduced:\n                                for j in range(k):\n                                        if image[j] >= 0:\n                                                newnode[image[j]] = 1\n                        newnode = tuple(newnode)"),
    ("n-cox-tolerance-named", ["C07"], G + "automata/coxeter_automaton.py",
     "                        if f > 1e-6:",
     "                        if f > 1e-06 * 1.0:"),
    ("n-dtype-promote-all-generators", ["C05"], G + "representation.py",
     "        if first_generator:\n            self._dtype = matrix.dtype\n        else:\n            self._dtype = np.result_type(self._dtype, matrix.dtype)\n",
     "        self._dtype = np.result_type(*[m_.dtype for m_ in self.generators.values()])\n"),
    ("n-graph-dict-rows-by-loop", ["C09", "C10"], G + "automata/fsa.py",
     "        label_dict = {v:{} for v in self._out_dict}",
     "        label_dict = {}\n        for v in self._out_dict:\n            label_dict[v] = {}"),
    ("n-pruning-continue", ["C07"], G + "automata/coxeter_automaton.py",
     "                        if small_roots[j].neighbors[k] and position == small_roots[j].neighbors[k].id:\n                                return 1",
     "                        if not small_roots[j].neighbors[k]:\n                                continue\n                        if position == small_roots[j].neighbors[k].id:\n                                return 1"),
    ("n-coxeter-matrix-copy", ["C08"], G + "coxeter.py",
     "        _matrix = np.array(matrix)",
     "        _matrix = np.asarray(matrix).copy()"),
    ("n-irrep-guarded-loop", ["C17"], G + "lie/core.py",
     "            for i in range(max(0, j - r + k), min(j+1, k+1)):\n",
     "            for i in range(min(j, k) + 1):\n                if r - k - j + i < 0:\n                    continue\n"),
    ("n-irrep-bounds-rewritten", ["C17"], G + "lie/core.py",
     "            for i in range(max(0, j - r + k), min(j+1, k+1)):",
     "            for i in range(max(j - (r - k), 0), 1 + min(k, j)):"),
    ("n-interior-angle-via-pi", ["C13"], H,
     "    return 2 * np.arcsin(np.cos(gamma) / denom)",
     "    return pi - 2 * np.arccos(np.cos(gamma) / denom)"),
    ("n-angle-clip", ["C13"], H,
     "        return np.arccos(product)",
     "        return np.arccos(np.clip(product, -1, 1))"),
    ("n-parse-list-local-copy", ["C09"], G + "automata/gap_parse.py",
     "    interval = re.match(r\"((-?\\d+)\\.\\.(-?\\d+)\\])\", text)",
     "    head = text[:64]\n    interval = re.match(r\"((-?\\d+)\\.\\.(-?\\d+)\\])\", head)"),
    ("n-flat-center-mean", ["C12", "C14", "C04"], H,
     "    their affine span. For two points this is their midpoint.\"\"\"\n    if points.shape[-2] == 2:\n        return points.sum(axis=-2) / 2",
     "    their affine span. For two points this is their midpoint.\"\"\"\n    if points.shape[-2] == 2:\n        return (points[..., 0, :] + points[..., 1, :]) / 2"),
]


# behaviour-preserving refactorings written by sub-agents (probe digests
# byte-identical before/after): /verif/neutral/<region>-<k>/patch.diff.
# Every property's check must stay silent on each of them.
NEUTRAL_PATCHES = [f"N{i}-{k}" for i in range(1, 35) for k in range(1, 6)] \
    + ["N35-1"] \
    + [f"N{i}-{k}" for i in range(36, 50) for k in range(1, 6)]


def _apply(root, rel, old, new):
    path = os.path.join(root, rel)
    with open(path) as f:
        s = f.read()
    n = s.count(old)
    if n != 1:
        return f"anchor text matches {n} times in {rel}"
    s2 = s.replace(old, new)
    try:
        ast.parse(s2)
    except SyntaxError as e:
        return f"variant does not parse: {e}"
    with open(path, "w") as f:
        f.write(s2)
    return None


def _apply_patch(root, patchfile):
    import subprocess
    p = subprocess.run(["patch", "-p1", "-s", "-d", root, "-i", patchfile],
                       capture_output=True, text=True)
    if p.returncode != 0:
        return "patch does not apply: " + (p.stdout + p.stderr)[:200]
    return None


def _run_variant(job):
    kind, vid, pids, rule, rel, old, new, src = job
    os.environ["SA_NO_EVIDENCE"] = "1"
    sys.path.insert(0, os.path.dirname(os.path.dirname(os.path.abspath(__file__))))
    from sa.__main__ import run_check
    tmp = tempfile.mkdtemp(prefix="sa_selftest_")
    try:
        shutil.copytree(os.path.join(src, "geometry_tools"),
                        os.path.join(tmp, "geometry_tools"),
                        ignore=shutil.ignore_patterns("__pycache__", "builtin",
                                                      "*.wa", "*.md"))
        if kind == "seeded":
            err = _apply_patch(tmp, rel)
            kind = "mutant"
        elif kind == "neutralpatch":
            err = _apply_patch(tmp, rel)
            kind = "neutral"
        elif kind == "rename":
            # generated refactoring: every local of every function renamed
            import importlib.util
            spec = importlib.util.spec_from_file_location(
                "rename_locals", os.path.join(os.path.dirname(os.path.dirname(
                    os.path.abspath(__file__))), "tools", "rename_locals.py"))
            mod = importlib.util.module_from_spec(spec)
            spec.loader.exec_module(mod)
            out = tempfile.mkdtemp(prefix="sa_selftest_ren_")
            try:
                n = mod.main(os.path.join(tmp, "geometry_tools"),
                             os.path.join(out, "geometry_tools"), rel)
                shutil.rmtree(os.path.join(tmp, "geometry_tools"))
                shutil.move(os.path.join(out, "geometry_tools"),
                            os.path.join(tmp, "geometry_tools"))
            finally:
                shutil.rmtree(out, ignore_errors=True)
            err = None if n > 500 else f"only {n} locals renamed"
            kind = "neutral"
        elif kind == "gen":
            # generated refactoring (tools/gen_refactor.py), mode in `rel`
            import importlib.util
            spec = importlib.util.spec_from_file_location(
                "gen_refactor", os.path.join(os.path.dirname(os.path.dirname(
                    os.path.abspath(__file__))), "tools", "gen_refactor.py"))
            mod = importlib.util.module_from_spec(spec)
            spec.loader.exec_module(mod)
            out = tempfile.mkdtemp(prefix="sa_selftest_gen_")
            try:
                n = mod.main(rel, os.path.join(tmp, "geometry_tools"),
                             os.path.join(out, "geometry_tools"))
                shutil.rmtree(os.path.join(tmp, "geometry_tools"))
                shutil.move(os.path.join(out, "geometry_tools"),
                            os.path.join(tmp, "geometry_tools"))
            finally:
                shutil.rmtree(out, ignore_errors=True)
            err = None if n >= 5 else f"only {n} sites rewritten"
            kind = "neutral"
        else:
            err = _apply(tmp, rel, old, new)
        if err:
            return (kind, vid, "stale", err)
        out = []
        for pid in pids:
            code, rep = run_check(pid, "quick", tmp, quiet=True)
            rules = []
            if rep is not None:
                rules = sorted({r["rule"] for r in rep.records
                                if r["verdict"] == "violation"})
            out.append((pid, code, rules))
        return (kind, vid, "ran", out)
    finally:
        shutil.rmtree(tmp, ignore_errors=True)


def run(pids=None, jobs=16, root=None, quiet=False):
    """-> exit code (0 ok, 2 self-test failure)."""
    src = root or os.environ.get("SA_REPO", "/repo")
    want = set(pids) if pids else None
    todo = []
    for vid, ps, rule, rel, old, new in MUTANTS:
        sel = [p for p in ps if want is None or p in want]
        if sel:
            todo.append(("mutant", vid, sel, rule, rel, old, new, src))
    seeded_dir = os.path.join(os.path.dirname(os.path.dirname(
        os.path.abspath(__file__))), "seeded")
    for sid, pid, rule in SEEDED:
        if want is None or pid in want:
            todo.append(("seeded", "seeded-" + sid, [pid], rule,
                         os.path.join(seeded_dir, sid, "patch.diff"),
                         None, None, src))
    neutral_dir = os.path.join(os.path.dirname(seeded_dir), "neutral")
    allp = ["C01", "C02", "C03", "C04", "C05", "C06", "C07", "C08", "C09", "C10", "C11",
            "C12", "C13", "C14", "C15", "C16", "C17", "C18", "C19", "C20"]
    for nid in NEUTRAL_PATCHES:
        sel = [p for p in allp if want is None or p in want]
        if sel:
            todo.append(("neutralpatch", "refactor-" + nid, sel, None,
                         os.path.join(neutral_dir, nid, "patch.diff"),
                         None, None, src))
    for vid, ps, rel, old, new in NEUTRAL:
        sel = [p for p in ps if want is None or p in want]
        if sel:
            todo.append(("neutral", vid, sel, None, rel, old, new, src))
    # generated refactoring: all locals of all functions renamed (two
    # suffixes), one job per property
    for suffix in ("_q", "Renamed"):
        for p in allp:
            if want is None or p in want:
                todo.append(("rename", f"rename-locals{suffix}-{p}", [p],
                             None, suffix, None, None, src))
    # generated refactorings of the whole package (tools/gen_refactor.py)
    for mode in ("rettemp", "ifinvert", "eqswap", "cmpswap", "kwreverse",
                 "npfunc", "lastkw", "argtemp", "comploop"):
        for p in allp:
            if want is None or p in want:
                todo.append(("gen", f"gen-{mode}-{p}", [p], None, mode,
                             None, None, src))
    results = []
    with ProcessPoolExecutor(max_workers=max(1, jobs)) as ex:
        for res in ex.map(_run_variant, todo):
            results.append(res)
    rules_by = {j[1]: j[3] for j in todo}
    fails = []
    stale = []
    fired = silent = 0
    for kind, vid, status, payload in results:
        if status == "stale":
            stale.append((vid, payload))
            continue
        for pid, code, rules in payload:
            if kind == "mutant":
                if code == 1 and rules_by[vid] in rules:
                    fired += 1
                else:
                    fails.append(f"mutant {vid}: {pid} exit={code} "
                                 f"rules={rules}, expected rule "
                                 f"{rules_by[vid]} to fire")
            else:
                if code == 0:
                    silent += 1
                else:
                    fails.append(f"neutral edit {vid}: {pid} exit={code} "
                                 f"rules={rules}, expected silence")
    summary = {"mutants_fired": fired, "neutral_silent": silent,
               "stale_variants": [v for v, _ in stale],
               "failures": fails}
    if not quiet:
        print(f"[selftest {','.join(sorted(want)) if want else 'all'}] "
              f"mutant checks fired={fired} neutral silent={silent} "
              f"stale={len(stale)} failures={len(fails)}")
        for v, why in stale:
            print(f"  stale variant {v}: {why} (skipped; the repository "
                  "text it edits has changed)")
        for f in fails:
            print("  SELFTEST-FAIL " + f)
    run.last = summary
    if fails:
        print("ANALYSIS-ERROR self-test failed: the checker does not "
              "behave as specified on its own variants")
        return 2
    return 0


run.last = None
