"""P8 -- normalised expression equality: modulo commutativity/associativity of
& | + *, and/or, double negation, and inlining of single-assignment locals."""
import ast

_COMM = {ast.BitAnd: "&", ast.BitOr: "|", ast.Add: "+", ast.Mult: "*",
         ast.BitXor: "^"}


def single_defs(fnode):
    """name -> value expr for locals assigned exactly once (plain Assign)."""
    counts = {}
    vals = {}
    for n in ast.walk(fnode):
        if isinstance(n, ast.Assign):
            for t in n.targets:
                for nm in ast.walk(t):
                    if isinstance(nm, ast.Name) \
                            and isinstance(nm.ctx, ast.Store):
                        counts[nm.id] = counts.get(nm.id, 0) + 1
                        if isinstance(t, ast.Name):
                            vals[nm.id] = n.value
        elif isinstance(n, (ast.AugAssign, ast.AnnAssign)):
            t = n.target
            if isinstance(t, ast.Name):
                counts[t.id] = counts.get(t.id, 0) + 2
        elif isinstance(n, (ast.For, ast.comprehension)):
            for nm in ast.walk(n.target):
                if isinstance(nm, ast.Name) and isinstance(nm.ctx, ast.Store):
                    counts[nm.id] = counts.get(nm.id, 0) + 2
        elif isinstance(n, ast.arg):
            counts[n.arg] = counts.get(n.arg, 0) + 2
    return {k: v for k, v in vals.items() if counts.get(k) == 1}


def canon(e, defs=None, depth=0, inline=True):
    defs = defs or {}
    if isinstance(e, ast.Name):
        if inline and e.id in defs and depth < 6:
            v = defs[e.id]
            # only inline pure mask-like expressions
            if isinstance(v, (ast.BinOp, ast.UnaryOp, ast.Compare, ast.Name,
                              ast.BoolOp)) or (
                    isinstance(v, ast.Call)
                    and ast.unparse(v.func).startswith("np.logical_")):
                return canon(v, defs, depth + 1, inline)
        return e.id
    if isinstance(e, ast.Constant):
        return repr(e.value)
    if isinstance(e, ast.BinOp) and type(e.op) in _COMM:
        op = _COMM[type(e.op)]
        items = []

        def flat(x):
            if isinstance(x, ast.BinOp) and type(x.op) is type(e.op):
                flat(x.left)
                flat(x.right)
            else:
                items.append(canon(x, defs, depth, inline))
        flat(e)
        return "(" + f" {op} ".join(sorted(items)) + ")"
    if isinstance(e, ast.BinOp):
        return (f"({canon(e.left, defs, depth, inline)} "
                f"{type(e.op).__name__} {canon(e.right, defs, depth, inline)})")
    if isinstance(e, ast.BoolOp):
        op = "and" if isinstance(e.op, ast.And) else "or"
        return "(" + f" {op} ".join(
            sorted(canon(v, defs, depth, inline) for v in e.values)) + ")"
    if isinstance(e, ast.UnaryOp):
        inner = e.operand
        if isinstance(e.op, (ast.Invert, ast.Not)):
            if isinstance(inner, ast.UnaryOp) and type(inner.op) is type(e.op):
                return canon(inner.operand, defs, depth, inline)
            return "~" + canon(inner, defs, depth, inline)
        return f"({type(e.op).__name__} {canon(inner, defs, depth, inline)})"
    if isinstance(e, ast.Call):
        name = ast.unparse(e.func)
        if name == "np.logical_and" and len(e.args) == 2:
            return "(" + " & ".join(sorted(
                canon(a, defs, depth, inline) for a in e.args)) + ")"
        if name == "np.logical_or" and len(e.args) == 2:
            return "(" + " | ".join(sorted(
                canon(a, defs, depth, inline) for a in e.args)) + ")"
        if name == "np.logical_not" and len(e.args) == 1:
            return "~" + canon(e.args[0], defs, depth, inline)
        args = [canon(a, defs, depth, inline) for a in e.args]
        kws = sorted(f"{k.arg}={canon(k.value, defs, depth, inline)}"
                     for k in e.keywords)
        return f"{name}({', '.join(args + kws)})"
    if isinstance(e, ast.Attribute):
        return canon(e.value, defs, depth, inline) + "." + e.attr
    if isinstance(e, ast.Subscript):
        return (canon(e.value, defs, depth, inline) + "["
                + canon(e.slice, defs, depth, inline) + "]")
    if isinstance(e, ast.Tuple):
        return "(" + ", ".join(canon(x, defs, depth, inline)
                               for x in e.elts) + ")"
    if isinstance(e, ast.Compare):
        parts = [canon(e.left, defs, depth, inline)]
        for op, c in zip(e.ops, e.comparators):
            parts.append(type(op).__name__)
            parts.append(canon(c, defs, depth, inline))
        return "(" + " ".join(parts) + ")"
    try:
        return " ".join(ast.unparse(e).split())
    except Exception:
        return ast.dump(e)


# ---------------------------------------------------------------------------
# forward substitution of straight-line locals under known flags


class _Subst(ast.NodeTransformer):
    def __init__(self, env, flags):
        self.env, self.flags = env, flags

    def visit_Name(self, n):
        if isinstance(n.ctx, ast.Load) and n.id in self.env \
                and self.env[n.id] is not None:
            import copy
            return copy.deepcopy(self.env[n.id])
        return n

    def visit_IfExp(self, n):
        from .flow import eval_test
        self.generic_visit(n)
        t = eval_test(n.test, self.flags)
        if t is True:
            return n.body
        if t is False:
            return n.orelse
        return n

    def visit_Lambda(self, n):
        return n


def _assigned_names(stmts):
    out = set()
    for st in stmts:
        for n in ast.walk(st):
            if isinstance(n, ast.Name) and isinstance(n.ctx, ast.Store):
                out.add(n.id)
    return out


def forward_subst(fnode, flags=None):
    """Walk the function body in order, specialised to `flags` (parameter
    name -> constant), substituting plain local assignments forward.
    -> (returns, env): `returns` is the list of return-value expressions
    (locals replaced by their definitions, conditional expressions on the
    flags folded) on the paths consistent with the flags; names assigned
    under undecidable conditions / loops / try are left symbolic."""
    import copy
    from .flow import eval_test
    flags = dict(flags or {})
    returns = []

    def sub(e, env):
        return _Subst(env, flags).visit(copy.deepcopy(e))

    def block(body, env):
        """-> True if the block certainly returned/raised."""
        for st in body:
            if isinstance(st, ast.Return):
                returns.append(sub(st.value, env) if st.value is not None
                               else None)
                return True
            if isinstance(st, ast.Raise):
                return True
            if isinstance(st, ast.Assign) and len(st.targets) == 1 \
                    and isinstance(st.targets[0], ast.Name):
                env[st.targets[0].id] = sub(st.value, env)
                continue
            if isinstance(st, ast.If):
                t = eval_test(st.test, flags)
                if t is True:
                    if block(st.body, env):
                        return True
                    continue
                if t is False:
                    if block(st.orelse, env):
                        return True
                    continue
                e1, e2 = dict(env), dict(env)
                d1 = block(st.body, e1)
                d2 = block(st.orelse, e2)
                if d1 and d2:
                    return True
                if d1:
                    env.clear()
                    env.update(e2)
                elif d2:
                    env.clear()
                    env.update(e1)
                else:
                    for k in set(e1) | set(e2):
                        a, b = e1.get(k), e2.get(k)
                        if a is not None and b is not None \
                                and ast.dump(a) == ast.dump(b):
                            env[k] = a
                        else:
                            env[k] = None
                continue
            # anything else: names stored inside become unknown
            for nm in _assigned_names([st]):
                env[nm] = None
            if isinstance(st, (ast.For, ast.While, ast.Try, ast.With)):
                # returns inside are recorded with what is known
                for n in ast.walk(st):
                    if isinstance(n, ast.Return) and n.value is not None:
                        returns.append(sub(n.value, env))
        return False

    env = {}
    block(fnode.body, env)
    return returns, env
