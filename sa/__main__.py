"""CLI: python -m sa check <ID> [--tier quick|thorough] | replay <path> | selftest"""
import argparse
import importlib
import json
import os
import sys
import traceback

from .project import AnalysisError, Project
from .callgraph import BindingAnalysis, CallGraph
from .report import Reporter

CLAIMED = ["C01", "C02", "C03", "C04", "C05", "C06", "C07", "C08", "C09", "C10", "C11",
           "C12", "C13", "C14", "C15", "C16", "C17", "C18", "C19", "C20"]


class Context:
    def __init__(self, root, pid, tier, seed=0, quiet=False):
        self.root = root
        self.pid = pid
        self.tier = tier
        self.p = Project(root)
        self.cg = CallGraph(self.p)
        self.ba = BindingAnalysis(self.p, self.cg)
        self.r = Reporter(pid, tier, root, seed=seed, quiet=quiet)

    def scope(self, entry_table):
        """Functions attributed to a property: its entry points and what
        they reach through precise (non name-based) call edges."""
        from .rules.common import entries
        key = tuple(entry_table)
        cache = self.__dict__.setdefault("_scope_cache", {})
        if key not in cache:
            ents = entries(self, entry_table)
            cache[key] = set(self.cg.reachable(ents, precise=True))
        return cache[key]

    def do(self, rule_fn, *args, **kwargs):
        """Run one rule; an AnalysisError inside it is recorded as a gap so
        that the other rules of the property still report."""
        from .shape import Unsupported
        try:
            return rule_fn(self, *args, **kwargs)
        except Unsupported as e:
            self.r.gap(rule_fn.__name__, str(e), fatal=getattr(
                rule_fn, "fatal_unsupported", False))
        except AnalysisError as e:
            # a vanished anchor function/class (or a stale table) is an
            # analysis error; an anchor that exists but no longer has the
            # idiom the rule recognises is "not judged" (NOTE), so that a
            # behaviour-preserving refactoring never fails a check
            msg = str(e)
            fatal = ("vanished" in msg or "stale" in msg
                     or "syntax error" in msg)
            self.r.gap(rule_fn.__name__, msg, fatal=fatal)
        return None


def run_check(pid, tier, root, seed=0, quiet=False):
    """-> (exit_code, reporter or None)"""
    try:
        mod = importlib.import_module(f"sa.props.{pid.lower()}")
    except ModuleNotFoundError:
        print(f"ANALYSIS-ERROR property={pid}: no checker for this property")
        return 2, None
    try:
        ctx = Context(root, pid, tier, seed=seed, quiet=quiet)
        mod.run(ctx)
        if tier == "thorough" and hasattr(mod, "run_thorough"):
            mod.run_thorough(ctx)
        st_code = 0
        if tier == "thorough" and not quiet:
            from . import selftest
            st_code = selftest.run([pid], jobs=16, root=root)
            ctx.r.extra["selftest"] = selftest.run.last
            ctx.r.rule("SELFTEST", "two-way validation of this property's "
                       "rules on scratch-copy variants: every seeded "
                       "single-instance break must fire the named rule, "
                       "every behaviour-preserving edit must stay silent")
        code = ctx.r.finish()
        if st_code:
            return 2, ctx.r
        return code, ctx.r
    except AnalysisError as e:
        if not quiet:
            print(f"ANALYSIS-ERROR property={pid}: {e}")
        return 2, None
    except Exception:
        if not quiet:
            print(f"ANALYSIS-ERROR property={pid}: internal error\n"
                  + traceback.format_exc())
        return 2, None


def main(argv=None):
    ap = argparse.ArgumentParser(prog="sa")
    sub = ap.add_subparsers(dest="cmd", required=True)
    c = sub.add_parser("check")
    c.add_argument("pid")
    c.add_argument("--tier", default=os.environ.get("VERIF_TIER", "quick"),
                   choices=["quick", "thorough"])
    c.add_argument("--root", default=os.environ.get("SA_REPO", "/repo"))
    r = sub.add_parser("replay")
    r.add_argument("path")
    r.add_argument("--root", default=os.environ.get("SA_REPO", "/repo"))
    s = sub.add_parser("selftest")
    s.add_argument("pids", nargs="*")
    s.add_argument("--jobs", type=int, default=16)
    a = sub.add_parser("all")
    a.add_argument("--tier", default="quick")
    a.add_argument("--root", default=os.environ.get("SA_REPO", "/repo"))
    args = ap.parse_args(argv)
    try:
        seed = int(os.environ.get("VERIF_SEED", "0"))
    except ValueError:
        seed = 0

    if args.cmd == "check":
        code, _ = run_check(args.pid.upper(), args.tier, args.root, seed)
        return code
    if args.cmd == "all":
        worst = 0
        for pid in CLAIMED:
            code, _ = run_check(pid, args.tier, args.root, seed)
            worst = max(worst, code)
        return worst
    if args.cmd == "replay":
        with open(args.path) as f:
            v = json.load(f)
        os.environ["SA_NO_EVIDENCE"] = "1"
        code, rep = run_check(v["property"], "quick", args.root, seed,
                              quiet=True)
        if code == 2 or rep is None:
            print(f"ANALYSIS-ERROR replay of {args.path}")
            return 2
        still = [r for r in rep.records
                 if r.get("key") == v["key"] and r["verdict"] == "violation"]
        if still:
            s = still[0]
            print(f"VIOLATION property={v['property']} replay={args.path}")
            print(f"  rule={s['rule']} at {s['where']}: {s['construct']!r}\n"
                  f"  why: {s['detail']}")
            return 1
        print(f"replay: rule instance {v['key']!r} no longer violates on "
              f"the current tree")
        return 0
    if args.cmd == "selftest":
        from . import selftest
        return selftest.run([p.upper() for p in args.pids] or None,
                            jobs=args.jobs)
    return 2


if __name__ == "__main__":
    try:
        rc = main()
    except SystemExit:
        raise
    except Exception:
        print("ANALYSIS-ERROR internal error\n" + traceback.format_exc())
        rc = 2
    sys.stdout.flush()
    sys.exit(rc)
