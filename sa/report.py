"""P9 -- reporting: obligations, violations, notes, evidence, known findings."""
import hashlib
import json
import os
import sys
import time

VERIF = os.path.dirname(os.path.dirname(os.path.abspath(__file__)))
KNOWN_FILE = os.path.join(VERIF, "known_findings.json")


def load_known():
    if not os.path.exists(KNOWN_FILE):
        return {"known": [], "fixed": []}
    with open(KNOWN_FILE) as f:
        return json.load(f)


class Reporter:
    def __init__(self, pid, tier, root, seed=0, quiet=False):
        self.pid = pid
        self.tier = tier
        self.root = root
        self.seed = seed
        self.quiet = quiet
        self.t0 = time.time()
        self.records = []        # every obligation, in order
        self.rules = {}          # rule -> description
        self.functions = set()
        self.assumptions = []
        self.extra = {}
        self.gaps = []           # (rule function, message, fatal?)

    # ------------------------------------------------------------------ api
    def rule(self, rid, text):
        self.rules[rid] = text

    def _rec(self, verdict, rule, instance, where, construct, detail, key=None,
             path=None):
        r = {"verdict": verdict, "rule": rule, "instance": instance,
             "where": where, "construct": construct, "detail": detail}
        if key:
            r["key"] = key
        if path:
            r["path"] = path
        self.records.append(r)
        return r

    def ok(self, rule, instance, where="", construct="", detail=""):
        return self._rec("holds", rule, instance, where, construct, detail)

    def violation(self, rule, key, where, construct, detail, instance="",
                  path=None):
        return self._rec("violation", rule, instance or key, where, construct,
                         detail, key=f"{rule}|{key}", path=path)

    def note(self, rule, where, construct, detail, instance=""):
        return self._rec("note", rule, instance, where, construct, detail)

    def gap(self, where, msg, fatal=True):
        self.gaps.append((where, msg, fatal))

    def analysed(self, *funcs):
        for f in funcs:
            self.functions.add(f if isinstance(f, str) else f.fq)

    def assume(self, text):
        if text not in self.assumptions:
            self.assumptions.append(text)

    def require_count(self, rule, what, got, minimum):
        from .project import AnalysisError
        if got < minimum:
            raise AnalysisError(
                f"rule {rule}: only {got} instance(s) of {what} found, "
                f"{minimum} were confirmed by hand -- the rule would pass "
                f"vacuously; re-derive it")

    # --------------------------------------------------------------- finish
    def finish(self):
        known = load_known()
        known_keys = {}
        for k in known.get("known", []):
            if k.get("property") == self.pid:
                known_keys[k["key"]] = k
        viols = [r for r in self.records if r["verdict"] == "violation"]
        new, matched = [], []
        seen = set()
        for v in viols:
            if v["key"] in seen:
                continue
            seen.add(v["key"])
            if v["key"] in known_keys:
                v["verdict"] = "known-finding"
                matched.append(v)
            else:
                new.append(v)
        out_lines = []
        for r in self.records:
            if r["verdict"] == "note":
                out_lines.append(
                    f"NOTE property={self.pid} rule={r['rule']} {r['where']} "
                    f"{r['construct']!r}: {r['detail']}")
        for v in matched:
            out_lines.append(
                f"KNOWN-FINDING: property={self.pid} rule={v['rule']} "
                f"{v['where']} {v['construct']!r}: "
                f"{known_keys[v['key']].get('what', v['detail'])}")
        vdir = os.path.join(VERIF, "out", "violations", self.pid)
        for v in new:
            os.makedirs(vdir, exist_ok=True)
            h = hashlib.sha1(v["key"].encode()).hexdigest()[:12]
            path = os.path.join(vdir, f"{h}.json")
            with open(path, "w") as f:
                json.dump({"property": self.pid, "tier": self.tier, **v},
                          f, indent=1)
            out_lines.append(
                f"VIOLATION property={self.pid} replay={path}")
            out_lines.append(
                f"  rule={v['rule']} at {v['where']}: {v['construct']!r}\n"
                f"  why: {v['detail']}"
                + (f"\n  path: {' -> '.join(v['path'])}" if v.get("path") else ""))
        fatal = [g for g in self.gaps if g[2]]
        for where, msg, f in self.gaps:
            if not f:
                out_lines.append(
                    f"NOTE property={self.pid} {where}: not judged on this "
                    f"tree (idiom not recognised / construct unsupported): "
                    f"{msg}")
        self.extra["analysis_gaps"] = [f"{w}: {m}" for w, m, f in self.gaps]
        self._write_evidence(len(new), matched)
        holds = sum(1 for r in self.records if r["verdict"] == "holds")
        out_lines.append(
            f"[{self.pid}/{self.tier}] obligations={len(self.records) - self._n('note')} "
            f"hold={holds} violations={len(new)} known={len(matched)} "
            f"notes={self._n('note')} functions={len(self.functions)} "
            f"wall={time.time() - self.t0:.2f}s")
        if fatal and not new:
            for where, msg, f in fatal:
                out_lines.append(
                    f"ANALYSIS-ERROR property={self.pid} in {where}: {msg}")
        elif fatal:
            for where, msg, f in fatal:
                out_lines.append(
                    f"NOTE property={self.pid} {where} could not be "
                    f"evaluated on this tree: {msg}")
        if not self.quiet:
            print("\n".join(out_lines))
        if new:
            return 1
        return 2 if fatal else 0

    def _n(self, verdict):
        return sum(1 for r in self.records if r["verdict"] == verdict)

    def _write_evidence(self, nviol, matched):
        obl = [r for r in self.records if r["verdict"] != "note"]
        holds = [r for r in obl if r["verdict"] == "holds"]
        distinct = {(r["rule"], r["instance"], r["where"]) for r in obl}
        samples = []
        per_rule = {}
        for r in obl:
            per_rule.setdefault(r["rule"], []).append(r)
        for rule, rs in sorted(per_rule.items()):
            for r in rs[:4]:
                samples.append({k: r[k] for k in
                                ("rule", "instance", "where", "construct",
                                 "verdict", "detail") if r.get(k)})
        ev = {
            "property_id": self.pid,
            "tier": self.tier,
            "seed": self.seed,
            "level": "other",
            "coverage": {
                "explanation": (
                    "Static analysis (ast/symtable over the working tree, "
                    "nothing executed). Structural necessary conditions of "
                    "the property are decided rule by rule; each obligation "
                    "is one rule instance at one construct. Rules: "
                    + "; ".join(f"{k}: {v}" for k, v in sorted(self.rules.items()))),
                "obligations": len(obl),
                "discharged": len(holds),
                "evaluations": len(obl),
                "distinct_nontrivial": len(distinct),
                "rule": ("one case = one (rule, instance, construct) triple "
                         "found by the analyser on /repo's current source; "
                         "distinct = distinct triples; every counted case is a "
                         "rule instance on code feasible from the property's "
                         "entry points"),
                "samples": samples,
                "per_rule": {k: {"instances": len(v),
                                 "holding": sum(1 for r in v
                                                if r["verdict"] == "holds")}
                             for k, v in sorted(per_rule.items())},
                "functions_analysed": sorted(self.functions),
                "notes": [f"{r['rule']} {r['where']}: {r['detail']}"
                          for r in self.records if r["verdict"] == "note"],
                "known_findings_matched": [m["key"] for m in matched],
                "checker_cmd": f"/venv/bin/python -m sa check {self.pid} "
                               f"--tier {self.tier}",
                "trusted_base": [
                    "sa/project.py import+MRO resolution",
                    "sa/callgraph.py CHA call resolution",
                    "frozen instance tables in sa/props/" + self.pid.lower() + ".py",
                ],
                "exhaustive": True,
                **self.extra,
            },
            "assumptions": self.assumptions,
            "wall_s": round(time.time() - self.t0, 3),
            "violations": nviol,
        }
        edir = os.path.join(VERIF, "evidence")
        os.makedirs(edir, exist_ok=True)
        if os.environ.get("SA_NO_EVIDENCE"):
            return
        with open(os.path.join(edir, f"{self.pid}.json"), "w") as f:
            json.dump(ev, f, indent=1, sort_keys=False)
            f.write("\n")
