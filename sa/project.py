"""P1 -- project model: modules, imports, classes (C3 MRO), functions.

Pure stdlib; parses the working tree of the repository, never imports it.
"""
import ast
import builtins
import os
from dataclasses import dataclass, field

PKG = "geometry_tools"


class AnalysisError(Exception):
    """The analyser cannot decide (vanished anchor, unsupported construct)."""


# --------------------------------------------------------------------------
# entities


@dataclass
class External:
    """A name bound to something outside the project (numpy, stdlib ...)."""
    dotted: str

    def __repr__(self):
        return f"<ext {self.dotted}>"


@dataclass
class Var:
    """A module / class level variable."""
    module: "Module"
    name: str
    node: ast.AST = None

    def __repr__(self):
        return f"<var {self.module.name}.{self.name}>"


class FunctionInfo:
    def __init__(self, module, node, cls=None, parent=None):
        self.module = module
        self.node = node
        self.cls = cls
        self.parent = parent      # enclosing FunctionInfo for nested defs
        self.name = node.name
        decos = []
        for d in node.decorator_list:
            try:
                decos.append(ast.unparse(d))
            except Exception:       # pragma: no cover
                decos.append("?")
        self.decorators = decos
        self.is_static = "staticmethod" in decos
        self.is_classmethod = "classmethod" in decos
        self.is_property = "property" in decos

    @property
    def qualname(self):
        if self.cls is not None:
            return f"{self.cls.name}.{self.name}"
        if self.parent is not None:
            return f"{self.parent.qualname}.<locals>.{self.name}"
        return self.name

    @property
    def fq(self):
        return f"{self.module.rel}::{self.qualname}"

    @property
    def params(self):
        a = self.node.args
        return [x.arg for x in a.posonlyargs + a.args]

    @property
    def kwonly(self):
        return [x.arg for x in self.node.args.kwonlyargs]

    @property
    def has_varargs(self):
        return self.node.args.vararg is not None

    @property
    def has_kwargs(self):
        return self.node.args.kwarg is not None

    def defaults(self):
        """param name -> default AST node (positional + kwonly)."""
        a = self.node.args
        pos = a.posonlyargs + a.args
        out = {}
        for p, d in zip(pos[len(pos) - len(a.defaults):], a.defaults):
            out[p.arg] = d
        for p, d in zip(a.kwonlyargs, a.kw_defaults):
            if d is not None:
                out[p.arg] = d
        return out

    def __repr__(self):
        return f"<fn {self.fq}>"


class ClassInfo:
    def __init__(self, module, node):
        self.module = module
        self.node = node
        self.name = node.name
        self.methods = {}        # name -> FunctionInfo
        self.attrs = {}          # class-level assignments name -> ast value
        self.bases = []          # resolved later: ClassInfo | External
        self._mro = None

    @property
    def fq(self):
        return f"{self.module.rel}::{self.name}"

    def __repr__(self):
        return f"<class {self.fq}>"


_MIRROR_OPS = {ast.Lt: ast.Gt, ast.Gt: ast.Lt, ast.LtE: ast.GtE,
               ast.GtE: ast.LtE, ast.Eq: ast.Eq, ast.NotEq: ast.NotEq}


class _Canon(ast.NodeTransformer):
    """Source-level normal form applied to every module before any rule sees
    it, so that two spellings of the same program are one program to the
    rules:
      * `t = E` immediately followed by `return t`  ->  `return E`
      * `K <op> x` with a literal K on the left      ->  `x <mirrored op> K`
      * `if not c: A else: B` (no elif chain)        ->  `if c: B else: A`
    Positions of the surviving nodes are kept."""

    def _stmts(self, body):
        out = []
        i = 0
        while i < len(body):
            st = body[i]
            nxt = body[i + 1] if i + 1 < len(body) else None
            if isinstance(st, ast.Assign) and len(st.targets) == 1 \
                    and isinstance(st.targets[0], ast.Name) \
                    and isinstance(nxt, ast.Return) \
                    and isinstance(nxt.value, ast.Name) \
                    and nxt.value.id == st.targets[0].id:
                out.append(ast.copy_location(ast.Return(value=st.value), st))
                i += 2
                continue
            out.append(st)
            i += 1
        return out

    def generic_visit(self, node):
        super().generic_visit(node)
        for fld in ("body", "orelse", "finalbody"):
            b = getattr(node, fld, None)
            if isinstance(b, list) and b and isinstance(b[0], ast.stmt):
                setattr(node, fld, self._stmts(b))
        return node

    def visit_If(self, st):
        self.generic_visit(st)
        if isinstance(st.test, ast.UnaryOp) and isinstance(st.test.op,
                                                           ast.Not) \
                and st.orelse and not (len(st.orelse) == 1 and isinstance(
                    st.orelse[0], ast.If)):
            st.test, st.body, st.orelse = st.test.operand, st.orelse, st.body
        return st

    def visit_Compare(self, c):
        self.generic_visit(c)
        if len(c.ops) == 1 and type(c.ops[0]) in _MIRROR_OPS \
                and isinstance(c.left, ast.Constant) \
                and not isinstance(c.comparators[0], ast.Constant):
            return ast.copy_location(ast.Compare(
                left=c.comparators[0],
                ops=[_MIRROR_OPS[type(c.ops[0])]()],
                comparators=[c.left]), c)
        return c


class Module:
    def __init__(self, project, name, path, rel, is_pkg):
        self.project = project
        self.name = name
        self.path = path
        self.rel = rel
        self.is_pkg = is_pkg
        with open(path, encoding="utf-8") as f:
            self.source = f.read()
        try:
            self.tree = ast.parse(self.source, filename=path)
        except SyntaxError as e:
            raise AnalysisError(f"syntax error in {rel}: {e}")
        self.tree = ast.fix_missing_locations(_Canon().visit(self.tree))
        self.bindings = {}       # name -> list of raw binding records
        self.stars = []          # module names star-imported
        self.functions = {}
        self.classes = {}
        self.sage_only = set()   # names bound only under SAGE_AVAILABLE
        self.parents = {}
        for p in ast.walk(self.tree):
            for c in ast.iter_child_nodes(p):
                self.parents[c] = p

    def reindex(self):
        self.parents = {}
        for p in ast.walk(self.tree):
            for c in ast.iter_child_nodes(p):
                self.parents[c] = p

    def __repr__(self):
        return f"<module {self.name}>"

    @property
    def package(self):
        return self.name if self.is_pkg else self.name.rpartition(".")[0]


# --------------------------------------------------------------------------


def _is_sage_test(test):
    s = ast.unparse(test)
    return "SAGE_AVAILABLE" in s


class Project:
    def __init__(self, root):
        self.root = os.path.abspath(root)
        pkgdir = os.path.join(self.root, PKG)
        if not os.path.isdir(pkgdir):
            raise AnalysisError(f"package directory {pkgdir} not found")
        self.modules = {}
        for dirpath, dirnames, filenames in os.walk(pkgdir):
            dirnames[:] = sorted(d for d in dirnames if d != "__pycache__")
            for fn in sorted(filenames):
                if not fn.endswith(".py"):
                    continue
                path = os.path.join(dirpath, fn)
                rel = os.path.relpath(path, self.root)
                parts = rel[:-3].split(os.sep)
                is_pkg = parts[-1] == "__init__"
                if is_pkg:
                    parts = parts[:-1]
                name = ".".join(parts)
                self.modules[name] = Module(self, name, path, rel, is_pkg)
        self.all_functions = []
        self.all_classes = []
        for m in self.modules.values():
            self._collect(m)
        for c in self.all_classes:
            c.bases = [self.resolve_expr(c.module, b) for b in c.node.bases]
        self._subclasses = {}
        for c in self.all_classes:
            for a in self.mro(c)[1:]:
                self._subclasses.setdefault(id(a), []).append(c)

    # ------------------------------------------------------- call arguments
    def positional_args(self, call):
        """The arguments of `call` in parameter order, keywords that name the
        next positional parameter of every definition of the callee (by
        name, functions and methods of the package) appended: rules read
        arguments by position, and `f(a, name=b)` is `f(a, b)`."""
        if not hasattr(self, "_sig_index"):
            idx = {}
            for m in self.modules.values():
                for n in ast.walk(m.tree):
                    if isinstance(n, ast.ClassDef):
                        for fn in n.body:
                            if isinstance(fn, ast.FunctionDef):
                                decos = {ast.unparse(d)
                                         for d in fn.decorator_list}
                                idx.setdefault(fn.name, []).append((
                                    [a.arg for a in fn.args.args],
                                    0 if "staticmethod" in decos else 1))
                for fn in m.tree.body:
                    if isinstance(fn, ast.FunctionDef):
                        idx.setdefault(fn.name, []).append((
                            [a.arg for a in fn.args.args], 0))
            self._sig_index = idx
        args = list(call.args)
        if any(isinstance(a, ast.Starred) for a in args):
            return args
        name = call.func.attr if isinstance(call.func, ast.Attribute) \
            else (call.func.id if isinstance(call.func, ast.Name) else None)
        cands = self._sig_index.get(name) if name else None
        if not cands:
            return args
        kws = {k.arg: k.value for k in call.keywords if k.arg}
        while True:
            pname = None
            for params, off in cands:
                if isinstance(call.func, ast.Name):
                    off = 0
                i = len(args) + off
                if i >= len(params):
                    return args
                if pname is None:
                    pname = params[i]
                elif pname != params[i]:
                    return args
            if pname not in kws:
                return args
            args.append(kws[pname])

    # ---------------------------------------------------------------- collect
    def _collect(self, m):
        def bind(name, rec):
            m.bindings.setdefault(name, []).append(rec)

        def visit_body(body, sage=False):
            for st in body:
                if isinstance(st, ast.Import):
                    for al in st.names:
                        nm = al.asname or al.name.split(".")[0]
                        target = al.name if al.asname else al.name.split(".")[0]
                        bind(nm, ("import", target, sage))
                elif isinstance(st, ast.ImportFrom):
                    base = self._abs_from(m, st)
                    for al in st.names:
                        if al.name == "*":
                            m.stars.append(base)
                        else:
                            bind(al.asname or al.name,
                                 ("from", base, al.name, sage))
                elif isinstance(st, (ast.FunctionDef, ast.AsyncFunctionDef)):
                    fi = FunctionInfo(m, st)
                    m.functions[st.name] = fi
                    self.all_functions.append(fi)
                    self._collect_nested(fi)
                    bind(st.name, ("def", fi, sage))
                elif isinstance(st, ast.ClassDef):
                    ci = ClassInfo(m, st)
                    m.classes[st.name] = ci
                    self.all_classes.append(ci)
                    bind(st.name, ("class", ci, sage))
                    for cst in st.body:
                        if isinstance(cst, (ast.FunctionDef,
                                            ast.AsyncFunctionDef)):
                            fi = FunctionInfo(m, cst, cls=ci)
                            ci.methods[cst.name] = fi
                            self.all_functions.append(fi)
                            self._collect_nested(fi)
                        elif isinstance(cst, ast.Assign):
                            for t in cst.targets:
                                if isinstance(t, ast.Name):
                                    ci.attrs[t.id] = cst.value
                elif isinstance(st, (ast.Assign, ast.AnnAssign, ast.AugAssign)):
                    targets = st.targets if isinstance(st, ast.Assign) \
                        else [st.target]
                    for t in targets:
                        for n in ast.walk(t):
                            if isinstance(n, ast.Name):
                                bind(n.id, ("var", st, sage))
                elif isinstance(st, ast.If):
                    s = sage or _is_sage_test(st.test)
                    visit_body(st.body, s)
                    visit_body(st.orelse, sage)
                elif isinstance(st, ast.Try):
                    visit_body(st.body, sage)
                    for h in st.handlers:
                        visit_body(h.body, sage)
                    visit_body(st.orelse, sage)
                    visit_body(st.finalbody, sage)
                elif isinstance(st, (ast.For, ast.While, ast.With)):
                    if isinstance(st, ast.For):
                        for n in ast.walk(st.target):
                            if isinstance(n, ast.Name):
                                bind(n.id, ("var", st, sage))
                    visit_body(st.body, sage)
                    visit_body(getattr(st, "orelse", []), sage)

        visit_body(m.tree.body)
        for name, recs in m.bindings.items():
            if all(r[-1] for r in recs):
                m.sage_only.add(name)

    def _collect_nested(self, fi):
        fi.nested = []
        for n in ast.walk(fi.node):
            if n is fi.node:
                continue
            if isinstance(n, (ast.FunctionDef, ast.AsyncFunctionDef)):
                sub = FunctionInfo(fi.module, n, parent=fi)
                fi.nested.append(sub)

    def _abs_from(self, m, st):
        if st.level == 0:
            return st.module
        pkg = m.package.split(".")
        if st.level > 1:
            pkg = pkg[: len(pkg) - (st.level - 1)]
        base = ".".join(pkg)
        if st.module:
            base = base + "." + st.module
        return base

    # ---------------------------------------------------------------- lookups
    def module_by_rel(self, rel):
        for m in self.modules.values():
            if m.rel == rel:
                return m
        raise AnalysisError(f"anchor module {rel} has vanished")

    def exports(self, m, _seen=None):
        _seen = _seen or set()
        if m.name in _seen:
            return set()
        _seen.add(m.name)
        names = {n for n in m.bindings if not n.startswith("_")}
        for s in m.stars:
            sm = self.modules.get(s)
            if sm is not None:
                names |= self.exports(sm, _seen)
        return names

    def lookup(self, m, name, _seen=None):
        """Resolve a module-level name to an entity or None."""
        _seen = _seen or set()
        key = (m.name, name)
        if key in _seen:
            return None
        _seen.add(key)
        recs = m.bindings.get(name)
        if recs:
            rec = recs[-1]
            kind = rec[0]
            if kind == "def":
                return rec[1]
            if kind == "class":
                return rec[1]
            if kind == "var":
                return Var(m, name, rec[1])
            if kind == "import":
                tgt = rec[1]
                if tgt in self.modules:
                    return self.modules[tgt]
                return External(tgt)
            if kind == "from":
                base, nm = rec[1], rec[2]
                if base is None:
                    return External(nm)
                sub = f"{base}.{nm}"
                if base in self.modules:
                    bm = self.modules[base]
                    ent = self.lookup(bm, nm, _seen)
                    if ent is not None:
                        return ent
                    if sub in self.modules:
                        return self.modules[sub]
                    return None
                if sub in self.modules:
                    return self.modules[sub]
                if base.split(".")[0] == PKG:
                    return None
                return External(sub)
        for s in m.stars:
            sm = self.modules.get(s)
            if sm is None:
                continue
            if name.startswith("_"):
                continue
            ent = self.lookup(sm, name, _seen)
            if ent is not None:
                return ent
        # implicit submodule attribute of a package
        if m.is_pkg and f"{m.name}.{name}" in self.modules:
            return self.modules[f"{m.name}.{name}"]
        return None

    def module_binds(self, m, name):
        if name in m.bindings:
            return True
        if name.startswith("_"):
            return False
        for s in m.stars:
            sm = self.modules.get(s)
            if sm is not None and name in self.exports(sm):
                return True
        return False

    def resolve_expr(self, m, expr, cls=None):
        """Resolve a Name / dotted Attribute chain at module level."""
        if isinstance(expr, ast.Name):
            ent = self.lookup(m, expr.id)
            if ent is None and hasattr(builtins, expr.id):
                return External("builtins." + expr.id)
            return ent
        if isinstance(expr, ast.Attribute):
            base = self.resolve_expr(m, expr.value, cls)
            if base is None:
                return None
            if isinstance(base, Module):
                return self.lookup(base, expr.attr)
            if isinstance(base, ClassInfo):
                meth = self.find_method(base, expr.attr)
                if meth is not None:
                    return meth
                for c in self.mro(base):
                    if isinstance(c, ClassInfo) and expr.attr in c.attrs:
                        return Var(c.module, f"{c.name}.{expr.attr}",
                                   c.attrs[expr.attr])
                return None
            if isinstance(base, External):
                return External(base.dotted + "." + expr.attr)
        return None

    # ---------------------------------------------------------------- classes
    def mro(self, c):
        if c._mro is not None:
            return c._mro
        seqs = []
        for b in c.bases:
            if isinstance(b, ClassInfo):
                seqs.append(list(self.mro(b)))
        seqs.append([b for b in c.bases if isinstance(b, ClassInfo)])
        res = [c]
        seqs = [s for s in seqs if s]
        while seqs:
            for s in seqs:
                cand = s[0]
                if not any(cand in t[1:] for t in seqs):
                    break
            else:
                raise AnalysisError(f"inconsistent MRO for {c.fq}")
            res.append(cand)
            seqs = [[x for x in s if x is not cand] for s in seqs]
            seqs = [s for s in seqs if s]
        c._mro = res
        return res

    def find_method(self, c, name):
        for k in self.mro(c):
            if name in k.methods:
                return k.methods[name]
        return None

    def subclasses(self, c):
        return list(self._subclasses.get(id(c), []))

    def cha_methods(self, c, name):
        """Method `name` as seen from static class c: MRO + overrides below."""
        out = []
        m = self.find_method(c, name)
        if m is not None:
            out.append(m)
        for s in self.subclasses(c):
            if name in s.methods and s.methods[name] not in out:
                out.append(s.methods[name])
            else:
                mm = self.find_method(s, name)
                if mm is not None and mm not in out:
                    out.append(mm)
        return out

    def classes_defining(self, name):
        return [c for c in self.all_classes if name in c.methods]

    # ---------------------------------------------------------------- anchors
    def get_class(self, rel, name):
        m = self.module_by_rel(rel)
        c = m.classes.get(name)
        if c is None:
            raise AnalysisError(f"anchor class {rel}::{name} has vanished")
        return c

    def get_function(self, rel, qualname):
        m = self.module_by_rel(rel)
        if "." in qualname:
            cname, fname = qualname.split(".", 1)
            c = m.classes.get(cname)
            if c is None:
                raise AnalysisError(f"anchor class {rel}::{cname} has vanished")
            f = c.methods.get(fname)
            if f is None:
                raise AnalysisError(
                    f"anchor method {rel}::{qualname} has vanished")
            return f
        f = m.functions.get(qualname)
        if f is None:
            raise AnalysisError(f"anchor function {rel}::{qualname} has vanished")
        return f

    def get_method_mro(self, rel, cname, mname):
        c = self.get_class(rel, cname)
        f = self.find_method(c, mname)
        if f is None:
            raise AnalysisError(
                f"anchor method {mname} not found in MRO of {rel}::{cname}")
        return f


def loc(fi_or_mod, node):
    """file:line string for reports."""
    mod = fi_or_mod.module if hasattr(fi_or_mod, "module") else fi_or_mod
    return f"{mod.rel}:{getattr(node, 'lineno', 0)}"


def norm_stmt(node):
    """Normalised source of a statement/expression (key material)."""
    try:
        return " ".join(ast.unparse(node).split())
    except Exception:           # pragma: no cover
        return ast.dump(node)
