"""A tiny polyhedral domain: linear constraints over integer program
variables collected from enclosing `for v in range(...)` loops, decided by
Fourier-Motzkin elimination (over the rationals: a feasible system means "not
excluded", an infeasible one is a proof)."""
import ast
from fractions import Fraction as Fr


class NonLinear(Exception):
    pass


def linear(expr, env=None):
    """expr -> {var: coef, 1: const}; env maps names to expressions that
    replace them (single-definition locals such as r = n - 1)."""
    env = {k: v for k, v in (env or {}).items() if k != "__defs__"}

    def go(e, depth=0):
        if depth > 20:
            raise NonLinear("substitution too deep")
        if isinstance(e, ast.Constant) and isinstance(e.value, int) \
                and not isinstance(e.value, bool):
            return {1: Fr(e.value)}
        if isinstance(e, ast.Name):
            if e.id in env:
                return go(env[e.id], depth + 1)
            return {e.id: Fr(1)}
        if isinstance(e, ast.UnaryOp) and isinstance(e.op, ast.USub):
            return {k: -v for k, v in go(e.operand, depth).items()}
        if isinstance(e, ast.UnaryOp) and isinstance(e.op, ast.UAdd):
            return go(e.operand, depth)
        if isinstance(e, ast.BinOp) and isinstance(e.op, (ast.Add, ast.Sub)):
            a, b = go(e.left, depth), go(e.right, depth)
            s = 1 if isinstance(e.op, ast.Add) else -1
            out = dict(a)
            for k, v in b.items():
                out[k] = out.get(k, Fr(0)) + s * v
            return out
        if isinstance(e, ast.BinOp) and isinstance(e.op, ast.Mult):
            a, b = go(e.left, depth), go(e.right, depth)
            if set(a) <= {1}:
                c, o = a.get(1, Fr(0)), b
            elif set(b) <= {1}:
                c, o = b.get(1, Fr(0)), a
            else:
                raise NonLinear(ast.unparse(e))
            return {k: c * v for k, v in o.items()}
        raise NonLinear(ast.unparse(e))
    out = go(expr)
    return {k: v for k, v in out.items() if v != 0 or k == 1}


def sub(a, b):
    out = dict(a)
    for k, v in b.items():
        out[k] = out.get(k, Fr(0)) - v
    return {k: v for k, v in out.items() if v != 0}


def _alts(expr, fn, env, depth=0):
    """expr as a list of linear forms whose `fn` (min / max) it is;
    min(a, b) + c is distributed; a name with one definition that is such
    an expression stands for it."""
    defs = (env or {}).get("__defs__", {})
    if isinstance(expr, ast.Name) and expr.id in defs and depth < 6 \
            and expr.id not in (env or {}):
        return _alts(defs[expr.id], fn, env, depth + 1)
    if isinstance(expr, ast.Call) and isinstance(expr.func, ast.Name) \
            and expr.func.id == fn and not expr.keywords and expr.args:
        out = []
        for a in expr.args:
            out.extend(_alts(a, fn, env, depth))
        return out
    if isinstance(expr, ast.Call) and isinstance(expr.func, ast.Name) \
            and expr.func.id in ("min", "max"):
        raise NonLinear(f"{expr.func.id}() as the wrong kind of bound")
    if isinstance(expr, ast.BinOp) and isinstance(expr.op, (ast.Add, ast.Sub)):
        has_l = any(isinstance(n, ast.Call) for n in ast.walk(expr.left))
        has_r = any(isinstance(n, ast.Call) for n in ast.walk(expr.right))
        if has_l and not has_r:
            c = linear(expr.right, env)
            s = 1 if isinstance(expr.op, ast.Add) else -1
            return [sub(x, {k: -s * v for k, v in c.items()})
                    for x in _alts(expr.left, fn, env, depth)]
        if has_r and not has_l and isinstance(expr.op, ast.Add):
            c = linear(expr.left, env)
            return [sub(x, {k: -v for k, v in c.items()})
                    for x in _alts(expr.right, fn, env, depth)]
    return [linear(expr, env)]


def loop_constraints(target, it, env=None):
    """constraints for `for target in it:` -- a range() loop over a name, or
    itertools.product of ranges over a tuple of names.
    -> (constraints, bound variable names)"""
    if isinstance(target, ast.Name):
        return range_constraints(target.id, it, env), {target.id}
    if isinstance(target, ast.Tuple) and all(isinstance(e, ast.Name)
                                             for e in target.elts) \
            and isinstance(it, ast.Call) and (
                (isinstance(it.func, ast.Attribute)
                 and it.func.attr == "product")
                or (isinstance(it.func, ast.Name)
                    and it.func.id == "product")):
        rngs = list(it.args)
        rep = next((k.value for k in it.keywords if k.arg == "repeat"), None)
        if rep is not None:
            if not (isinstance(rep, ast.Constant) and isinstance(rep.value,
                                                                 int)):
                raise NonLinear("product(repeat=<non-literal>)")
            rngs = rngs * rep.value
        if any(k.arg != "repeat" for k in it.keywords) \
                or len(rngs) != len(target.elts):
            raise NonLinear("product() arity")
        cons = []
        for v, rg in zip(target.elts, rngs):
            cons.extend(range_constraints(v.id, rg, env))
        return cons, {v.id for v in target.elts}
    raise NonLinear("loop form not understood")


def range_constraints(var, call, env=None):
    """constraints g >= 0 (as linear forms) that `for var in range(...)`
    guarantees inside the loop body"""
    if not (isinstance(call, ast.Call) and isinstance(call.func, ast.Name)
            and call.func.id == "range" and not call.keywords
            and 1 <= len(call.args) <= 2):
        raise NonLinear("not a range(lo, hi) loop")
    lo = ast.Constant(0) if len(call.args) == 1 else call.args[0]
    hi = call.args[-1]
    v = {var: Fr(1)}
    cons = []
    for l in _alts(lo, "max", env):       # var >= each argument of max
        cons.append(sub(v, l))
    for h in _alts(hi, "min", env):       # var <= each argument of min - 1
        cons.append(sub(sub(h, v), {1: Fr(1)}))
    return cons


def feasible(cons):
    """Is {g >= 0 for g in cons} satisfiable over the rationals?"""
    cons = [dict(c) for c in cons]
    while True:
        vars_ = sorted({k for c in cons for k in c if k != 1}, key=str)
        if not vars_:
            return all(c.get(1, Fr(0)) >= 0 for c in cons)
        x = vars_[0]
        pos = [c for c in cons if c.get(x, 0) > 0]
        neg = [c for c in cons if c.get(x, 0) < 0]
        rest = [c for c in cons if c.get(x, 0) == 0]
        for p in pos:
            for n in neg:
                # p: a x + P >= 0 (a>0), n: -b x + N >= 0 (b>0)
                a, b = p[x], -n[x]
                new = {}
                for k, v in p.items():
                    if k != x:
                        new[k] = new.get(k, Fr(0)) + b * v
                for k, v in n.items():
                    if k != x:
                        new[k] = new.get(k, Fr(0)) + a * v
                rest.append({k: v for k, v in new.items() if v != 0})
        cons = rest
        if len(cons) > 5000:
            raise NonLinear("constraint blow-up")


def proves_nonneg(cons, e):
    """cons |= e >= 0  (refute e <= -1)"""
    neg = {k: -v for k, v in e.items()}
    neg[1] = neg.get(1, Fr(0)) - 1
    return not feasible(list(cons) + [neg])
