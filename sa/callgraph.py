"""P3 -- call resolution and reachability (CHA + one-level constructor
inference), P2 -- unbound-name analysis via symtable."""
import ast
import builtins
import symtable

from .project import (AnalysisError, ClassInfo, External, FunctionInfo,
                      Module, Var, loc, norm_stmt)

# receivers that are certainly not project objects
_EXT_ROOTS = {"np", "numpy", "scipy", "plt", "re", "itertools", "copy",
              "os", "math", "functools", "warnings", "inspect"}


def own_nodes(fnode):
    """Walk a function body including lambdas/comprehensions and nested defs."""
    for n in ast.walk(fnode):
        yield n


class CallSite:
    __slots__ = ("caller", "node", "targets", "kind")

    def __init__(self, caller, node, targets, kind):
        self.caller = caller
        self.node = node
        self.targets = targets
        self.kind = kind

    def __repr__(self):
        return f"<call {loc(self.caller, self.node)} -> {self.targets}>"


class CallGraph:
    def __init__(self, project):
        self.p = project
        self.sites = {}       # FunctionInfo -> [CallSite]
        self.edges = {}       # FunctionInfo -> set(FunctionInfo)
        self.precise = {}     # same, without name-based CHA edges
        self.callers = {}     # FunctionInfo -> [CallSite]
        self._prop_names = {}
        for c in project.all_classes:
            for n, f in c.methods.items():
                if f.is_property:
                    self._prop_names.setdefault(n, []).append(f)
        for f in project.all_functions:
            self._analyse(f)

    # ------------------------------------------------------------ inference
    def _ctor_classes(self, f, expr, depth=0):
        """Classes an expression certainly/possibly constructs (one level)."""
        m = f.module
        if isinstance(expr, ast.Call):
            fn = expr.func
            if isinstance(fn, ast.Name) and fn.id in ("copy", "deepcopy") \
                    and expr.args:
                return self._ctor_classes(f, expr.args[0], depth)
            if isinstance(fn, ast.Attribute) and fn.attr in ("copy", "deepcopy") \
                    and isinstance(fn.value, ast.Name) and fn.value.id == "copy" \
                    and expr.args:
                return self._ctor_classes(f, expr.args[0], depth)
            if isinstance(fn, ast.Name) and fn.id == "cls" and f.cls is not None:
                return [f.cls]
            if (isinstance(fn, ast.Attribute) and fn.attr == "__class__"
                    and isinstance(fn.value, ast.Name)
                    and fn.value.id == "self" and f.cls is not None):
                return [f.cls]
            ent = self.p.resolve_expr(m, fn)
            if isinstance(ent, ClassInfo):
                return [ent]
            cands = []
            if isinstance(ent, FunctionInfo):
                cands = [ent]
            elif isinstance(fn, ast.Attribute) and isinstance(fn.value, ast.Name) \
                    and fn.value.id == "self" and f.cls is not None:
                cands = self.p.cha_methods(f.cls, fn.attr)
            if cands and depth < 1:
                out = []
                for ent in cands:
                    rets = [n for n in ast.walk(ent.node)
                            if isinstance(n, ast.Return)
                            and n.value is not None]
                    if not rets:
                        return []
                    for r in rets:
                        cs = self._ctor_classes(ent, r.value, depth + 1)
                        if not cs:
                            return []
                        out += [c for c in cs if c not in out]
                return out
        if isinstance(expr, ast.Name) and expr.id == "self" and f.cls is not None:
            return [f.cls]
        return []

    def local_types(self, f):
        types = {}
        for n in ast.walk(f.node):
            if isinstance(n, ast.Assign) and len(n.targets) == 1 \
                    and isinstance(n.targets[0], ast.Name):
                cs = self._ctor_classes(f, n.value)
                if cs:
                    types.setdefault(n.targets[0].id, [])
                    for c in cs:
                        if c not in types[n.targets[0].id]:
                            types[n.targets[0].id].append(c)
                else:
                    types.setdefault(n.targets[0].id, []).append(None)
        # a name assigned once from something unknown is unknown
        return {k: [c for c in v if c is not None]
                for k, v in types.items() if None not in v}

    # ------------------------------------------------------------- analysis
    def external_locals(self, f):
        """Locals of f that are only ever bound to results of external
        (numpy / stdlib) calls, literals or arithmetic: certainly not
        project objects."""
        cache = self.__dict__.setdefault("_extloc", {})
        if id(f) in cache:
            return cache[id(f)]
        binds = {}
        params = set(f.params) | set(f.kwonly)
        for n in ast.walk(f.node):
            tgts = []
            val = None
            if isinstance(n, ast.Assign):
                tgts, val = n.targets, n.value
            elif isinstance(n, ast.AugAssign):
                tgts, val = [n.target], n.value
            elif isinstance(n, (ast.For, ast.comprehension)):
                for x in ast.walk(n.target):
                    if isinstance(x, ast.Name):
                        binds.setdefault(x.id, []).append(False)
                continue
            elif isinstance(n, ast.withitem) and n.optional_vars is not None:
                for x in ast.walk(n.optional_vars):
                    if isinstance(x, ast.Name):
                        binds.setdefault(x.id, []).append(False)
                continue
            for t in tgts:
                if isinstance(t, ast.Name):
                    binds.setdefault(t.id, []).append(
                        self._ext_value(f, val))
                elif isinstance(t, (ast.Tuple, ast.List)):
                    for x in ast.walk(t):
                        if isinstance(x, ast.Name):
                            binds.setdefault(x.id, []).append(
                                self._ext_value(f, val))
        out = {k for k, v in binds.items() if v and all(v)
               and k not in params}
        cache[id(f)] = out
        return out

    def _ext_value(self, f, v):
        if isinstance(v, (ast.Constant, ast.List, ast.Dict, ast.Set,
                          ast.ListComp, ast.DictComp, ast.JoinedStr,
                          ast.Compare)):
            return True
        if isinstance(v, ast.Call):
            ent = self.p.resolve_expr(f.module, v.func)
            if isinstance(ent, External):
                return True
            if isinstance(v.func, ast.Attribute):
                return self._is_external_expr(f, v.func.value, _deep=True)
            return False
        if isinstance(v, ast.BinOp):
            return self._ext_value(f, v.left) or self._ext_value(f, v.right)
        if isinstance(v, ast.UnaryOp):
            return self._ext_value(f, v.operand)
        if isinstance(v, (ast.Subscript, ast.Attribute)):
            return self._is_external_expr(f, v, _deep=True)
        return False

    def _is_external_expr(self, f, e, _deep=False):
        """Receiver certainly a non-project value (numpy array etc.)."""
        if not _deep:
            base = e
            while isinstance(base, (ast.Attribute, ast.Subscript)):
                base = base.value
            if isinstance(base, ast.Name) and base.id in self.external_locals(f):
                return True
        while isinstance(e, (ast.Attribute, ast.Subscript, ast.Call)):
            if isinstance(e, ast.Call):
                ent = self.p.resolve_expr(f.module, e.func)
                if isinstance(ent, External):
                    return True
                e = e.func
            else:
                e = e.value
        if isinstance(e, ast.Name):
            if e.id in _EXT_ROOTS:
                ent = self.p.resolve_expr(f.module, e)
                return isinstance(ent, External)
        if isinstance(e, (ast.Constant, ast.List, ast.Tuple, ast.Dict,
                          ast.ListComp, ast.JoinedStr, ast.BinOp)):
            return True
        return False

    def resolve_call(self, f, call, ltypes=None):
        """-> (kind, [FunctionInfo|ClassInfo|External])"""
        p = self.p
        m = f.module
        fn = call.func
        if ltypes is None:
            ltypes = self.local_types(f)
        lexcls = f.cls
        par = f
        while lexcls is None and par.parent is not None:
            par = par.parent
            lexcls = par.cls
        if isinstance(fn, ast.Name):
            if fn.id == "cls" and lexcls is not None:
                return "ctor", [lexcls] + p.subclasses(lexcls)
            if fn.id in self._locals(f):
                return "local", []
            ent = p.resolve_expr(m, fn)
            if isinstance(ent, FunctionInfo):
                return "func", [ent]
            if isinstance(ent, ClassInfo):
                return "ctor", [ent]
            if isinstance(ent, External):
                return "ext", [ent]
            return "unknown", []
        if isinstance(fn, ast.Attribute):
            v = fn.value
            # self.__class__(...)
            if fn.attr == "__class__":
                if isinstance(v, ast.Name) and v.id == "self" \
                        and lexcls is not None:
                    return "ctor", [lexcls] + p.subclasses(lexcls)
                return "unknown", []
            if isinstance(v, ast.Attribute) and v.attr == "__class__" \
                    and isinstance(v.value, ast.Name) and v.value.id == "self" \
                    and lexcls is not None:
                return "method", p.cha_methods(lexcls, fn.attr)
            if isinstance(v, ast.Call) and isinstance(v.func, ast.Name) \
                    and v.func.id == "super" and lexcls is not None:
                for k in p.mro(lexcls)[1:]:
                    if fn.attr in k.methods:
                        return "method", [k.methods[fn.attr]]
                return "unknown", []
            if isinstance(v, ast.Name) and v.id in ("self", "cls") \
                    and lexcls is not None and v.id not in ltypes:
                t = p.cha_methods(lexcls, fn.attr)
                if t:
                    return "method", t
                return "unknown", []
            if isinstance(v, ast.Name) and v.id in ltypes and ltypes[v.id]:
                out = []
                for c in ltypes[v.id]:
                    for t in p.cha_methods(c, fn.attr):
                        if t not in out:
                            out.append(t)
                if out:
                    return "method", out
            if not (isinstance(v, ast.Name) and v.id in self._locals(f)):
                ent = p.resolve_expr(m, fn)
                if isinstance(ent, FunctionInfo):
                    return "func", [ent]
                if isinstance(ent, ClassInfo):
                    return "ctor", [ent]
                if isinstance(ent, External):
                    return "ext", [ent]
            cs = self._ctor_classes(f, v)
            if cs:
                out = []
                for c in cs:
                    for t in p.cha_methods(c, fn.attr):
                        if t not in out:
                            out.append(t)
                if out:
                    return "method", out
            if self._is_external_expr(f, v):
                return "ext", []
            # name-based CHA
            out = []
            for c in p.classes_defining(fn.attr):
                out.append(c.methods[fn.attr])
            if out:
                return "cha", out
            return "unknown", []
        return "unknown", []

    _locals_cache = None

    def _locals(self, f):
        if self._locals_cache is None:
            self._locals_cache = {}
        got = self._locals_cache.get(id(f))
        if got is not None:
            return got
        names = set(f.params) | set(f.kwonly)
        if f.node.args.vararg:
            names.add(f.node.args.vararg.arg)
        if f.node.args.kwarg:
            names.add(f.node.args.kwarg.arg)
        for n in ast.walk(f.node):
            if isinstance(n, ast.Name) and isinstance(n.ctx, (ast.Store, ast.Del)):
                names.add(n.id)
            elif isinstance(n, ast.arg):
                names.add(n.arg)
            elif isinstance(n, (ast.FunctionDef, ast.AsyncFunctionDef)) \
                    and n is not f.node:
                names.add(n.name)
            elif isinstance(n, ast.ExceptHandler) and n.name:
                names.add(n.name)
            elif isinstance(n, (ast.Import, ast.ImportFrom)):
                for al in n.names:
                    names.add((al.asname or al.name).split(".")[0])
        # a parent's locals are visible in nested functions
        if f.parent is not None:
            names |= self._locals(f.parent)
        self._locals_cache[id(f)] = names
        return names

    def _analyse(self, f):
        sites = []
        edges = set()
        precise = set()
        ltypes = self.local_types(f)
        locs = self._locals(f)
        for n in own_nodes(f.node):
            if isinstance(n, ast.Call):
                kind, targets = self.resolve_call(f, n, ltypes)
                cs = CallSite(f, n, targets, kind)
                sites.append(cs)
                for t in targets:
                    if isinstance(t, FunctionInfo):
                        edges.add(t)
                        if kind != "cha":
                            precise.add(t)
                        self.callers.setdefault(t, []).append(cs)
                    elif isinstance(t, ClassInfo):
                        init = self.p.find_method(t, "__init__")
                        if init is not None:
                            edges.add(init)
                            precise.add(init)
                            self.callers.setdefault(init, []).append(cs)
            elif isinstance(n, ast.Attribute) and isinstance(n.ctx, ast.Load):
                # property reads
                props = self._prop_names.get(n.attr)
                if props:
                    lexcls = f.cls or (f.parent.cls if f.parent else None)
                    if isinstance(n.value, ast.Name) and n.value.id == "self" \
                            and lexcls is not None:
                        for t in self.p.cha_methods(lexcls, n.attr):
                            edges.add(t)
                            precise.add(t)
                    elif not self._is_external_expr(f, n.value):
                        for t in props:
                            edges.add(t)
                # function value references (mod.func passed as value)
                if not (isinstance(n.value, ast.Name) and n.value.id in locs):
                    ent = self.p.resolve_expr(f.module, n)
                    if isinstance(ent, FunctionInfo):
                        edges.add(ent)
                        precise.add(ent)
            elif isinstance(n, ast.Name) and isinstance(n.ctx, ast.Load) \
                    and n.id not in locs:
                ent = self.p.resolve_expr(f.module, n)
                if isinstance(ent, FunctionInfo):
                    edges.add(ent)
                    precise.add(ent)
        self.sites[f] = sites
        self.edges[f] = edges
        self.precise[f] = precise

    # --------------------------------------------------------- reachability
    def reachable(self, entries, precise=False):
        """Breadth-first, so parent pointers give shortest call paths."""
        from collections import deque
        seen = {}
        work = deque()
        for e in entries:
            if e not in seen:
                seen[e] = None
                work.append(e)
        while work:
            f = work.popleft()
            graph = self.precise if precise else self.edges
            for t in sorted(graph.get(f, ()), key=lambda x: x.fq):
                tt = t
                # a nested function's analysis is folded into its parent
                while tt.parent is not None:
                    tt = tt.parent
                if tt not in seen:
                    seen[tt] = f
                    work.append(tt)
        return seen

    def path_to(self, reach, f):
        out = [f]
        while reach.get(out[-1]) is not None:
            out.append(reach[out[-1]])
        return [x.qualname for x in reversed(out)]


# ---------------------------------------------------------------------------
# P2: unbound names


class Unbound:
    def __init__(self, func, name, node, klass, why):
        self.func = func
        self.name = name
        self.node = node
        self.klass = klass      # 'live' | 'error-path' | 'latent'
        self.why = why

    def key(self):
        return f"U1|{self.func.fq}|{self.name}"


def _flag_truth(test, flag):
    """Return required truth value of parameter `flag` for `test` to be True,
    or None when the test is not a pure test of that flag."""
    if isinstance(test, ast.Name) and test.id == flag:
        return True
    if isinstance(test, ast.UnaryOp) and isinstance(test.op, ast.Not):
        r = _flag_truth(test.operand, flag)
        return None if r is None else (not r)
    if isinstance(test, ast.Compare) and len(test.ops) == 1 \
            and isinstance(test.left, ast.Name) and test.left.id == flag \
            and isinstance(test.comparators[0], ast.Constant) \
            and test.comparators[0].value is None:
        if isinstance(test.ops[0], ast.IsNot):
            return True      # truthy-ish: not None
        if isinstance(test.ops[0], ast.Is):
            return False
    return None


def literal_truth(node):
    if isinstance(node, ast.Constant):
        return bool(node.value)
    return None


class BindingAnalysis:
    def __init__(self, project, cg):
        self.p = project
        self.cg = cg
        self._tables = {}

    def _table(self, m):
        if m.name not in self._tables:
            self._tables[m.name] = symtable.symtable(m.source, m.path, "exec")
        return self._tables[m.name]

    def _find_table(self, m, f):
        target_line = f.node.lineno
        # decorators shift lineno in symtable to the 'def' line on 3.8+: try both
        cands = {target_line}
        for d in f.node.decorator_list:
            cands.add(d.lineno)

        def rec(t):
            for ch in t.get_children():
                if ch.get_type() == "function" and ch.get_name() == f.name \
                        and ch.get_lineno() in cands:
                    return ch
                r = rec(ch)
                if r is not None:
                    return r
            return None
        t = rec(self._table(m))
        if t is None:
            raise AnalysisError(f"no symbol table for {f.fq}")
        return t

    def unbound_in(self, f):
        """Unbound global names read in function f (nested scopes folded in)."""
        m = f.module
        t = self._find_table(m, f)
        names = set()

        def rec(tab):
            for s in tab.get_symbols():
                if s.is_referenced() and s.is_global():
                    n = s.get_name()
                    if self.p.module_binds(m, n) or hasattr(builtins, n):
                        continue
                    if n in ("__class__", "__name__", "__file__", "__doc__"):
                        continue
                    names.add(n)
            for ch in tab.get_children():
                rec(ch)
        rec(t)
        out = []
        if not names:
            return out
        for n in ast.walk(f.node):
            if isinstance(n, ast.Name) and isinstance(n.ctx, ast.Load) \
                    and n.id in names:
                klass, why = self.classify(f, n)
                out.append(Unbound(f, n.id, n, klass, why))
        return out

    # classification of a site ---------------------------------------------
    def classify(self, f, node):
        parents = f.module.parents
        cur = node
        chain = []
        while cur is not f.node:
            par = parents[cur]
            chain.append((par, cur))
            cur = par
        for par, child in chain:
            if isinstance(par, ast.Raise):
                return "error-path", "inside a raise expression"
        # arm that unconditionally raises
        for par, child in chain:
            for fld in ("body", "orelse", "finalbody"):
                body = getattr(par, fld, None)
                if isinstance(body, list) and child in body:
                    idx = body.index(child)
                    rest = body[idx:]
                    if par is not f.node and rest \
                            and isinstance(rest[-1], ast.Raise) \
                            and not any(isinstance(x, ast.Return)
                                        for s in rest for x in ast.walk(s)):
                        return "error-path", "arm ends in an unconditional raise"
        # latent under a constant flag
        for par, child in chain:
            if isinstance(par, ast.If):
                in_body = child in par.body
                in_else = child in par.orelse
                if not (in_body or in_else):
                    continue
                for flag in f.params + f.kwonly:
                    need = _flag_truth(par.test, flag)
                    if need is None:
                        continue
                    if in_else:
                        need = not need
                    const = self.flag_constant(f, flag)
                    if const is not None and const != need:
                        return ("latent",
                                f"arm needs {flag}={need}; every resolved call "
                                f"site leaves {flag}={const}")
        return "live", ""

    def flag_constant(self, f, flag):
        """Truth value of `flag` at every resolved call site, else None."""
        d = f.defaults().get(flag)
        if d is None:
            return None
        dv = literal_truth(d)
        if dv is None:
            return None
        params = f.params
        bound_offset = 0
        if f.cls is not None and not f.is_static:
            bound_offset = 1
        for cs in self.cg.callers.get(f, []):
            call = cs.node
            if any(k.arg is None for k in call.keywords):
                return None          # **kwargs may carry the flag
            if any(isinstance(a, ast.Starred) for a in call.args):
                return None
            val = None
            for k in call.keywords:
                if k.arg == flag:
                    val = k.value
            if val is None and flag in params:
                idx = params.index(flag)
                # bound method call obj.m(a, b): self not in args
                is_unbound_style = (
                    isinstance(call.func, ast.Attribute)
                    and isinstance(self.p.resolve_expr(
                        cs.caller.module, call.func.value), ClassInfo)
                ) and not f.is_static
                off = 0 if (is_unbound_style or bound_offset == 0) else 1
                pos = idx - off
                if 0 <= pos < len(call.args):
                    val = call.args[pos]
            if val is None:
                continue
            lv = literal_truth(val)
            if lv is None or lv != dv:
                return None
        return dv
