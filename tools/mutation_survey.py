#!/usr/bin/env python3
"""Mutation survey -- a development aid for the checkers, NOT a check.

Generates single-point syntactic mutants of the package, keeps those that the
repository's own test suite does not notice, classifies them with the
sub-agents' probe scripts (digest changed = behaviour-changing; digest equal
= presumably equivalent) and reports which `sa` checks fire on each.

  behaviour-changing + no check fires  -> candidates for a new structural rule
  digest-equal       + a check fires   -> candidate false alarm (or a blind
                                          spot of the probe): inspect

usage: mutation_survey.py --n 400 --seed 1 --jobs 16 --out /tmp/survey.jsonl
"""
import argparse
import ast
import copy
import json
import os
import random
import shutil
import subprocess
import sys
import tempfile
from concurrent.futures import ProcessPoolExecutor

REPO = os.environ.get("SA_REPO", "/repo")
VERIF = os.path.dirname(os.path.dirname(os.path.abspath(__file__)))
FILES = {
    "geometry_tools/automata/fsa.py": ["N1"],
    "geometry_tools/representation.py": ["N2"],
    "geometry_tools/projective.py": ["N3", "N4"],
    "geometry_tools/hyperbolic.py": ["N5", "N6"],
    "geometry_tools/utils/core.py": ["N7", "N3", "N5"],
    "geometry_tools/utils/words.py": ["N7", "N2"],
    "geometry_tools/utils/types.py": ["N7"],
    "geometry_tools/complex_projective.py": ["N8"],
    "geometry_tools/drawtools.py": ["N8"],
    "geometry_tools/coxeter.py": ["N8"],
}
PIDS = ["C01", "C02", "C03", "C04", "C05", "C06", "C07", "C08", "C09", "C10", "C11", "C12",
        "C13", "C14", "C15", "C16", "C17", "C18", "C19", "C20"]

CMP = {ast.Lt: ast.LtE, ast.LtE: ast.Lt, ast.Gt: ast.GtE, ast.GtE: ast.Gt,
       ast.Eq: ast.NotEq, ast.NotEq: ast.Eq, ast.Is: ast.IsNot,
       ast.IsNot: ast.Is, ast.In: ast.NotIn, ast.NotIn: ast.In}
BIN = {ast.Add: ast.Sub, ast.Sub: ast.Add, ast.Mult: ast.Div,
       ast.Div: ast.Mult}


def sites(tree):
    """Enumerate (kind, node-path-id) mutation sites."""
    out = []
    idx = 0
    for n in ast.walk(tree):
        n._mid = idx
        idx += 1
    for n in ast.walk(tree):
        if isinstance(n, ast.Compare) and len(n.ops) == 1 \
                and type(n.ops[0]) in CMP:
            out.append(("cmp", n._mid))
        elif isinstance(n, ast.BinOp) and type(n.op) in BIN:
            out.append(("bin", n._mid))
        elif isinstance(n, ast.Constant) and isinstance(n.value, bool):
            out.append(("bool", n._mid))
        elif isinstance(n, ast.Constant) and isinstance(n.value, int) \
                and -3 <= n.value <= 3:
            out.append(("int+", n._mid))
            out.append(("int-", n._mid))
        elif isinstance(n, ast.Call):
            if len(n.args) >= 2 and not any(isinstance(a, ast.Starred)
                                            for a in n.args[:2]):
                out.append(("argswap", n._mid))
            for i, k in enumerate(n.keywords):
                if k.arg is not None:
                    out.append((f"kwdrop{i}", n._mid))
            if isinstance(n.func, ast.Attribute) and n.func.attr in (
                    "swapaxes", "copy") :
                out.append(("unwrapcall", n._mid))
        elif isinstance(n, ast.Attribute) and n.attr == "T":
            out.append(("unT", n._mid))
        elif isinstance(n, (ast.If, ast.While)):
            out.append(("negtest", n._mid))
        elif isinstance(n, (ast.Expr, ast.Assign, ast.AugAssign)) \
                and not (isinstance(n, ast.Expr)
                         and isinstance(n.value, ast.Constant)):
            out.append(("delstmt", n._mid))
        elif isinstance(n, ast.UnaryOp) and isinstance(n.op, (ast.USub,
                                                              ast.Not,
                                                              ast.Invert)):
            out.append(("ununary", n._mid))
    return out


class Mut(ast.NodeTransformer):
    def __init__(self, kind, mid):
        self.kind, self.mid, self.done = kind, mid, False

    def generic_visit(self, node):
        if getattr(node, "_mid", None) == self.mid and not self.done:
            r = self.apply(node)
            if r is not None:
                self.done = True
                return r
        return super().generic_visit(node)

    def apply(self, n):
        k = self.kind
        if k == "cmp":
            n.ops = [CMP[type(n.ops[0])]()]
            return n
        if k == "bin":
            n.op = BIN[type(n.op)]()
            return n
        if k == "bool":
            return ast.copy_location(ast.Constant(not n.value), n)
        if k == "int+":
            return ast.copy_location(ast.Constant(n.value + 1), n)
        if k == "int-":
            return ast.copy_location(ast.Constant(n.value - 1), n)
        if k == "argswap":
            n.args[0], n.args[1] = n.args[1], n.args[0]
            return n
        if k.startswith("kwdrop"):
            i = int(k[6:])
            if i < len(n.keywords):
                del n.keywords[i]
                return n
            return None
        if k == "unwrapcall":
            return n.func.value
        if k == "unT":
            return n.value
        if k == "negtest":
            n.test = ast.UnaryOp(ast.Not(), n.test)
            return n
        if k == "delstmt":
            return ast.copy_location(ast.Pass(), n)
        if k == "ununary":
            return n.operand
        return None


def make_mutant(rel, kind, mid):
    with open(os.path.join(REPO, rel)) as f:
        src = f.read()
    tree = ast.parse(src)
    sites(tree)
    m = Mut(kind, mid)
    new = m.visit(tree)
    if not m.done:
        return None, None
    ast.fix_missing_locations(new)
    try:
        out = ast.unparse(new)
        compile(out, rel, "exec")
    except Exception:
        return None, None
    return out, ast.unparse(ast.parse(src))


def sh(cmd, env=None, timeout=600):
    try:
        p = subprocess.run(cmd, shell=True, capture_output=True, text=True,
                           env=env, timeout=timeout)
        return p.returncode, p.stdout, p.stderr
    except subprocess.TimeoutExpired:
        return 124, "", "timeout"


def probe_src(region):
    with open(os.path.join(VERIF, "neutral", f"{region}-probe.py")) as f:
        lines = f.read().splitlines()
    src = "\n".join(lines) + "\n"
    # neutralise the agents' "am I importing from my worktree" assertions
    import re
    src = re.sub(r'startswith\(\s*["\']/tmp/wt/N\d["\']\s*\)',
                 'startswith("/")', src)
    return src


def run_one(job):
    rel, kind, mid, base_digests = job
    mutated, normalised = make_mutant(rel, kind, mid)
    if mutated is None or mutated == normalised:
        return None
    tmp = tempfile.mkdtemp(prefix="sa_mut_")
    try:
        shutil.copytree(REPO, tmp, dirs_exist_ok=True,
                        ignore=shutil.ignore_patterns(".git", "__pycache__",
                                                      "*.egg-info", "examples",
                                                      "make_doc"))
        with open(os.path.join(tmp, rel), "w") as f:
            f.write(mutated)
        env = dict(os.environ, PYTHONPATH=tmp, MPLBACKEND="Agg")
        rc, out, err = sh(f"cd {tmp} && /venv/bin/python -m pytest -q -x "
                          "-p no:cacheprovider --timeout=120 "
                          "--deselect testing/test_automata.py::test_load_kbmag "
                          "--deselect testing/test_projective.py::test_apply_pairwise "
                          "--deselect testing/test_projective.py::test_apply_pairwise_polygon "
                          "--ignore=testing/sage 2>&1 | tail -1", env=env)
        res = {"file": rel, "kind": kind, "mid": mid}
        # diff of the mutated line for the report
        import difflib
        d = [l for l in difflib.unified_diff(normalised.splitlines(),
                                             mutated.splitlines(), lineterm="",
                                             n=0) if l[:1] in "+-"
             and not l.startswith(("+++", "---"))]
        res["diff"] = d[:4]
        res["suite"] = out.strip()
        if "81 passed" not in out or "failed" in out or "error" in out:
            res["class"] = "killed-by-tests"
            return res
        changed = []
        for region in FILES[rel]:
            pf = os.path.join(tmp, f"_probe_{region}.py")
            with open(pf, "w") as f:
                f.write(probe_src(region))
            rc, out, err = sh(f"cd {tmp} && /venv/bin/python {pf}", env=env,
                              timeout=300)
            import hashlib
            dg = hashlib.sha1(out.encode()).hexdigest() if rc == 0 else f"rc{rc}"
            if dg != base_digests[region]:
                changed.append(region)
        res["probes_changed"] = changed
        res["class"] = "behaviour-changing" if changed else "probe-equal"
        fired = {}
        for pid in PIDS:
            rc, out, err = sh(f"cd {VERIF} && SA_NO_EVIDENCE=1 /venv/bin/python "
                              f"-m sa check {pid} --root {tmp}")
            if rc != 0:
                rules = sorted({l.split("rule=")[1].split()[0]
                                for l in out.splitlines()
                                if l.strip().startswith("rule=")})
                fired[pid] = {"rc": rc, "rules": rules}
        res["fired"] = fired
        return res
    finally:
        shutil.rmtree(tmp, ignore_errors=True)


def main():
    ap = argparse.ArgumentParser()
    ap.add_argument("--n", type=int, default=200)
    ap.add_argument("--seed", type=int, default=1)
    ap.add_argument("--jobs", type=int, default=16)
    ap.add_argument("--out", default="/tmp/survey.jsonl")
    a = ap.parse_args()
    rnd = random.Random(a.seed)
    allsites = []
    for rel in FILES:
        with open(os.path.join(REPO, rel)) as f:
            tree = ast.parse(f.read())
        for kind, mid in sites(tree):
            allsites.append((rel, kind, mid))
    rnd.shuffle(allsites)
    chosen = allsites[:a.n]
    # baseline digests
    import hashlib
    env = dict(os.environ, PYTHONPATH=REPO, MPLBACKEND="Agg")
    base = {}
    tmpd = tempfile.mkdtemp(prefix="sa_mut_base_")
    for region in sorted({r for v in FILES.values() for r in v}):
        pf = os.path.join(tmpd, f"_probe_{region}.py")
        with open(pf, "w") as f:
            f.write(probe_src(region))
        rc, out, err = sh(f"cd {REPO} && /venv/bin/python {pf}", env=env)
        base[region] = hashlib.sha1(out.encode()).hexdigest() if rc == 0 \
            else f"rc{rc}"
        print("baseline", region, rc, len(out.splitlines()), file=sys.stderr)
    shutil.rmtree(tmpd, ignore_errors=True)
    jobs = [(rel, kind, mid, base) for rel, kind, mid in chosen]
    n = 0
    with open(a.out, "w") as fo, ProcessPoolExecutor(a.jobs) as ex:
        for res in ex.map(run_one, jobs):
            if res is None:
                continue
            fo.write(json.dumps(res) + "\n")
            fo.flush()
            n += 1
    print("done", n, file=sys.stderr)


if __name__ == "__main__":
    main()
