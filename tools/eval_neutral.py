#!/usr/bin/env python3
"""Run every check against a behaviour-preserving refactoring.
usage: eval_neutral.py <neutral dir> <k> <worktree>"""
import json, os, subprocess, sys
nd, k, wt = sys.argv[1], sys.argv[2], sys.argv[3]
patch = os.path.join(nd, f"patch{k}.diff")
env = dict(os.environ, PYTHONPATH=wt, MPLBACKEND="Agg")
def sh(cmd, **kw): return subprocess.run(cmd, shell=True, capture_output=True, text=True, **kw)
out = {"dir": nd, "k": k}
sh(f"git -C {wt} checkout -- . && git -C {wt} clean -fdq")
probe = os.path.join(nd, "probe.py")
base = sh(f"cd {wt} && /venv/bin/python {probe}", env=env)
a = sh(f"git -C {wt} apply {patch}")
out["apply_rc"] = a.returncode
if a.returncode == 0:
    p = sh(f"cd {wt} && /venv/bin/python {probe}", env=env)
    out["probe_identical"] = (p.stdout == base.stdout and base.returncode == 0 and len(base.stdout) > 100)
    t = sh(f"cd {wt} && /venv/bin/python -m pytest -q -p no:cacheprovider --timeout=900 --continue-on-collection-errors 2>&1 | tail -1", env=env)
    out["suite"] = t.stdout.strip()
    fired = {}
    for pid in ["C01","C03","C04","C05","C06","C08","C09","C10","C11","C12","C13","C14","C15","C16","C17","C18","C19","C20"]:
        c = sh(f"cd /verif && SA_NO_EVIDENCE=1 /venv/bin/python -m sa check {pid} --root {wt}")
        if c.returncode != 0:
            lines = [l.strip() for l in c.stdout.splitlines() if l.strip().startswith("rule=") or "ANALYSIS-ERROR" in l]
            fired[pid] = {"rc": c.returncode, "what": lines[:4]}
    out["alarms"] = fired
sh(f"git -C {wt} checkout -- . && git -C {wt} clean -fdq")
print(json.dumps(out))
