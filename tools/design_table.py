#!/usr/bin/env python3
"""Print the table of DESIGN.md section 0.1 from the committed evidence."""
import glob
import json
import os

root = os.path.dirname(os.path.dirname(os.path.abspath(__file__)))
print("| property | obligations | rules (instances on the current tree) |")
print("|---|---|---|")
for f in sorted(glob.glob(os.path.join(root, "evidence", "C*.json"))):
    c = json.load(open(f))["coverage"]
    pid = os.path.basename(f)[:-5]
    per = c.get("per_rule", {})
    txt = ", ".join(f"{k} ({v if not isinstance(v, dict) else v.get('instances', v)})"
                    for k, v in sorted(per.items()) if k != "SELFTEST")
    print(f"| {pid} | {c['obligations']} | {txt} |")
