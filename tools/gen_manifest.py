#!/usr/bin/env python3
"""Regenerate /verif/MANIFEST.json from the table below (run by hand)."""
import json
import os
import sys

HERE = os.path.dirname(os.path.dirname(os.path.abspath(__file__)))

CHECKS = {
    "C01": dict(
        engine="C2 + D1 + G1 + H1 + H2 + I1 + I1c + N1 + PT1 + SH2 + U1",
        technique="AST dataflow: domain-guard, exhaustive-dispatch and inverse-pairing rules over Point.coords/distance; call-graph unbound-name scan",
        text="Decides structural necessary conditions only: every arccosh on the distance result path is clamped into its domain (so d(x,x) cannot be NaN), every Model value has a forwarding arm in the coords dispatch, setters and getters use name-inverse chart maps around the same delegate, and no unbound name is reachable. Not the numerical round-trip or metric laws.",
        ref="DESIGN.md §4 C01"),
    "C02": dict(
        engine="BLK1 + FORM1 + HOM1 + INV3 + NONNEG1 + ORI1 + PINV1 + RO + T1 + T1e + U1",
        technique="form-threading and who-may-invert lints over the Gram-Schmidt completion and the isometry constructors; block-index rule on the elliptic embedding; homogeneity types on the constructed matrices; call-graph unbound-name scan",
        text="Narrow (claimed in the eighth round). Decides only structural necessary conditions of form preservation: every helper of the indefinite Gram-Schmidt completion passes ITS form parameter to every form-taking helper it calls and hyperbolic.py calls find_isometry / indefinite_orthogonalize / normalize with the Minkowski form (FORM1, 21 call sites); Isometry.elliptic writes the orthogonal block at an index range that excludes the time row and column and standard_loxodromic is X diag(t, 1/t, 1..) X^-1 with one X (BLK1); every inv() of the Transformation family is a genuine matrix inverse, never a pseudo-inverse or a structural shortcut (INV3, PINV1), and composition multiplies the stored row matrices in the documented order (RO); the orientation fix negates one row (ORI1); the matrices returned by origin_to / isometry_to / reflection_across / timelike_to / spacelike_to scale by signs only when the representative of the input is rescaled (HOM1); the constructors are reachable without unbound names and accept Python scalars (U1, T1). Not decided: M^T J M = J for the computed matrices, distances, the SL(2,R) -> SO(2,1) identity, the diagonalised Coxeter form.",
        ref="DESIGN.md §4 C02, §0.8"),
    "C03": dict(
        engine="C2 + P1 + RO + S1 + SH3 + U1 + W1",
        technique="AST def-use slot tracking in Transformation.apply, effect analysis, MRO-resolved sibling agreement of wrap/unwrap functions",
        text="Decides that apply() transforms each of the three data slots with its own ndims and delivers it to its own keyword on a copy (never on the argument), that every representation class wraps and unwraps with one row/column convention, and the argument roles at matrix_product. Not the group-action laws as numerical identities.",
        ref="DESIGN.md §4 C03"),
    "C04": dict(
        engine="AX1 + RO + S1 + SH1 + SH2 + SH3 + U1",
        technique="abstract interpretation of utils.core broadcasting kernel over symbolic shapes (rank-exhaustive grid)",
        text="Decides the axis bookkeeping clause for all rank configurations in the grid with symbolic (unbounded) dimension sizes: result shape and axis provenance of matrix_product / broadcast_match in the three broadcast modes, plus slot-consistent reshape/flatten. Not the values at each index.",
        ref="DESIGN.md §4 C04"),
    "C05": dict(
        engine="C2 + CONJ + DU + ELT1 + FOLD + GO1 + HAD + INV + N1 + U1 + W1 + ZS1",
        technique="call-graph unbound-name scan, kind-typing of matrix products in derived-representation constructors, flag-agreement check",
        text="Decides that every derived-representation constructor can execute (no unbound names), composes matrix-kinded values with @ and never elementwise *, stores the inverse letter as the inverse matrix, and evaluates words as a left-to-right fold. Not the homomorphism law over all words.",
        ref="DESIGN.md §4 C05"),
    "C06": dict(
        engine="C2 + FW1 + M1 + M2 + M3 + M4 + N1 + U1",
        technique="path enumeration over a hand-built statement CFG of _automaton_accepted with flag specialisation",
        text="Decides, on every path of the memoised recursion, that the zero-length contribution is merged whenever maxlen may be true, that the recursion forwards every option, and that the word and matrix channels are combined on the same side in the same order. Not language equality.",
        ref="DESIGN.md §4 C06"),
    "C07": dict(
        engine="CM1 + EV + EVEN2 + GEO1 + INF1 + INFC + KEY1 + LEX1 + MC1 + N1 + ORD2 + THR1 + TOL2 + U1",
        technique="flag-threading dataflow along the automaton -> small-root -> transition call chain; path conditions at the edge-recording and pruning statements; sibling agreement of the infinity convention between coxeter.py and coxeter_automaton.py; tolerance-discipline lint on floating root tests; memo-key completeness; call-graph unbound-name scan",
        text="Narrow (claimed in the ninth round). Decides only structural necessary conditions of the accepted language: the `shortlex` request of CoxeterGroup.automaton is passed, as the flag itself, through generate_automaton_coxeter_matrix and generate_automaton to every apply_gen_to_node call (THR1); the even-length variant is even_automaton() of the same automaton exactly under the flag and even_automaton is automaton_multiple(2) (EVEN2, EV); letters are renamed with self.ordered_gens, the order that indexes the Coxeter matrix (ORD2, CM1); both modules treat exactly the labels <= 0 as infinite, with form entry -1 (INFC, INF1, N1: no `or`-default swallows the label 0); an edge labelled k is recorded only where node[k] != 1 is in force and the lexicographic pruning runs only under lex_reduced and over range(k) (GEO1, LEX1, read from path conditions); every float sign test of a root coordinate or pairing carries the module's 1e-6 tolerance (TOL2, 4 tests); a module-level memo, if one is introduced, keys on every input of the cached automaton and never hands out the cached object (KEY1, MC1); no unbound name is reachable (U1). Not decided: completeness of the small-root enumeration, correctness of the state transition, and that the accepted language is exactly the reduced / shortlex words -- an infinite-language statement that needs a word-problem oracle.",
        ref="DESIGN.md §4 C07, §0.9"),
    "C08": dict(
        engine="C2 + CM1 + DU + INF1 + N1 + P1q + PA1 + T1 + T1e + U1",
        technique="interprocedural value-kind flow from Coxeter constructors to np.can_cast probes; AST pattern on canonical_representation",
        text="Decides that the scalar parameters the Coxeter constructors create (Python floats) reach dtype probes that accept them, that the canonical representation is composed with an inverse-transpose, and hyperbolic_rep diagonalises. Not the Coxeter relations numerically.",
        ref="DESIGN.md §4 C08"),
    "C09": dict(
        engine="B1 + C2 + DV1 + FK1 + N1 + RF1 + U1 + V1 + V1p + V2 + V2r",
        technique="AST taint/alias analysis of the three redundant views of FSA; belief-contradiction rule; sibling write agreement",
        text="Decides that no list cell is shared between the outgoing and incoming views, that every edit/rebuild writes all three views with agreeing indices, and that nothing stored in the label view breaks the KeyError belief of the walk. Not equality with a set model over all histories.",
        ref="DESIGN.md §4 C09"),
    "C10": dict(
        engine="B1 + B2 + BFS1 + C2 + EV + FK1 + N1 + P1 + RF1 + U1 + V1p + V2r",
        technique="effect analysis with flag specialisation (inplace=False), belief contradiction, vivifying-read detection on defaultdict cells",
        text="Decides that acceptance and the walk share one belief about missing labels that every store respects, that read-only queries and non-in-place operations never mutate the automaton (including by defaultdict vivification), and that even_automaton is automaton_multiple(2). Not language equality of the derived automata.",
        ref="DESIGN.md §4 C10"),
    "C11": dict(
        engine="C2 + GI1 + P1 + S1 + S1c + S2 + S3 + SH3 + U1",
        technique="def-use slot tracking, must-pass-through (typestate) on writers of proj_data, MRO exhaustiveness",
        text="Decides that every shape/dtype/combine/apply operation carries each data slot with its own ndims to its own sink, that every writer of the primary data refreshes the derived data on all exits, that every class with derived data provides the recomputation, and that the copying operations never write through to the original. Not numerical equality of recomputed data.",
        ref="DESIGN.md §4 C11"),
    "C12": dict(
        engine="H1 + H2 + HD1 + OF1 + T1 + T1e + T2 + U1",
        technique="interprocedural value-kind flow to dtype probes; homogeneity typing of cross-object differences of raw representatives",
        text="Decides that Python scalars and nested lists supplied as 'like' reach a dtype probe that accepts them on NumPy>=2, and that no raw difference of two objects' homogeneous representatives is formed without sign/scale alignment. Not scale-invariance of arbitrary formulas.",
        ref="DESIGN.md §4 C12"),
    "C13": dict(
        engine="G2 + HD1 + ODD1 + RC + T1 + T1e + U1",
        technique="value-kind flow, call-graph scans, argument check at Isometry(find_isometry(...), column_vectors=False)",
        text="Narrow: decides only that the constructions can execute on real input and that every frame completed by find_isometry is wrapped with the row convention. Not that targets are hit.",
        ref="DESIGN.md §4 C13"),
    "C14": dict(
        engine="AX1 + PT1 + U1 + X1 + X2 + X3",
        technique="AST sibling agreement between the circle_parameters implementations",
        text="Narrow: decides that Geodesic and Segment agree on the model->arc-ordering table and that all four implementations scale to degrees under the degrees flag only. Not the geometry of the circles.",
        ref="DESIGN.md §4 C14"),
    "C15": dict(
        engine="EIG1 + R1 + REF1 + U1",
        technique="path enumeration: every success return is dominated by a conditional raise depending on the eigenvalues / dimension",
        text="Narrow: decides the 'a non-reflection is rejected' clause structurally. Not involutivity or fixed points.",
        ref="DESIGN.md §4 C15"),
    "C16": dict(
        engine="BM1 + C1 + EIG1 + I1c + N1 + R1c + SH4 + U1",
        technique="type-flow on the operands of the chart-membership comparisons",
        text="Decides that the comparisons deciding chart membership never route their operand through a real-typed cast unless it is a modulus, and that set and get use one chart index. Not affine maps/intersections numerically.",
        ref="DESIGN.md §4 C16"),
    "C17": dict(
        engine="SH8 + T3 + T4 + U1",
        technique="abstract interpretation of the Lie-group maps over symbolic batch shapes (closures, dictionaries and data-dependent branches followed); dtype-provenance lint of `like=`; call-graph unbound-name scan",
        text="Narrow. Decides only structural necessary conditions of the clause 'for single matrices and for arrays of matrices alike' and of the images being numeric: each map of lie/core.py (sl2_irrep, sl2_to_so21, block_include, slc_to_slr, gln_adjoint, sln_adjoint, sl2c_herm_action, sl2c_to_so31, o_to_pgl with and without its default form) returns, for a single matrix and for arrays of every rank, the batch axes of its argument followed by the documented square shape; no image takes its dtype from a callable or is divided in place into a caller-typed array; no unbound name is reachable from the anchored maps and their wrappers. Not that products go to products, determinants, preserved forms, the Killing form or the inverse up to sign (polynomial identities of the computed matrices).",
        ref="DESIGN.md §4 C17"),
    "C18": dict(
        engine="AX1 + PA1 + SH2 + T3 + U1",
        technique="abstract interpretation of the helpers over symbolic batch shapes with NumPy-scalar typing; axis-discipline lint; sibling agreement of the W / W^-1 permutations; call-graph unbound-name scan",
        text="Narrow. Decides only structural necessary conditions of the 'all batch shapes' clause: every helper (projection, indefinite_orthogonalize, find_isometry, orthogonal_complement, construct_diagonal, permute_along_axis, circle/sphere_through, circle_angles, short_arc, right_to_left, arc_include) returns arrays whose leading axes are the batch axes of its input for batches of every rank including none, never assigns into a NumPy scalar, names the axis of every reordering call, permutes W and W^-1 with the same order and flag, and reaches no unbound name. Not orthogonality, spans, signatures, kernels, that the sphere contains its points, or which arc is selected (numerical contracts of the returned arrays).",
        ref="DESIGN.md §4 C18"),
    "C19": dict(
        engine="DR1 + DR2 + DR3 + DR4 + K4 + U1",
        technique="AST def-use from each draw_* object parameter through preprocess_object; unit agreement between circle_parameters(degrees) and matplotlib Arc/Path.arc",
        text="Decides that every draw method routes its object through the dimension guard before use, applies the drawing transform exactly once for the kinds in the statement, and feeds degree-valued matplotlib APIs from degree-valued circle parameters. Not that paths follow geodesics.",
        ref="DESIGN.md §4 C19"),
    "C20": dict(
        engine="HD2 + K1 + K2 + K3 + O1 + PT1 + U1",
        technique="ownership analysis of utils.normalize's in-place argument; normalised-AST mask equality; sibling case tables",
        text="Decides that the disk centre is not reused after being normalised in place, that every masked store reads with the mask it writes with, and that elementwise and pairwise arms use the same case table. Not the stereographic/Moebius formulas.",
        ref="DESIGN.md §4 C20"),
}

NA = {
}

TRUST = ("Trusted base: the hand-written import/MRO/CHA resolution in sa/project.py "
         "and sa/callgraph.py, the copy/view/mutation tables in sa/flow.py, the frozen "
         "entry-point and instance tables of the property module, and Python's own "
         "ast/symtable. Sage-only branches are treated as dead (Sage is not installed). "
         "Nothing is executed.")


EXTRA_TEXT = {
    "C01": " Also (SH5): Point.coords in all five models and Point.distance, interpreted on abstract objects, return the composite axes of the object followed by n-1 / n coordinates (resp. nothing) for composite shapes of every rank.",
    "C04": " Also (SH5, MEAN1): 69 method rows of hyperbolic.py (coordinates, distance, origin_to, circle/sphere parameters, tangent-vector operations, fixed points, from_reflection, intersect_geodesic ...) interpreted end to end on abstract objects return, for a single object and for arrays of every rank, the composite axes followed by the documented unit shape, and no item assignment lands on a NumPy scalar.",
    "C13": " Also (SH5): origin_to, unit_tangent_towards, normalized, angle and point_along keep the composite axes of their object for every rank.",
    "C14": " Also (SH5, MEAN1): every circle_parameters / sphere_parameters / *_coords method returns (centre O+(n-1), radius O, angle pair O+(2,)) for composite shape O of every rank including a single object; midpoints divide by the size of the summed axis.",
    "C15": " Also (SH5): reflection_across, from_reflection, _data_with_dual, spacelike_complement and the fixed-point methods (either flag) return the documented shapes for composite shapes of every rank.",
    "C20": " Also (SH6): 19 method rows of complex_projective.py (disk accessors, center_inside, fs_diameter, fs_center, inversion, complement, contains/intersects elementwise and pairwise, both coordinate maps) return the documented shapes for a single object and for arrays of every rank, with no item assignment on a NumPy scalar.",
}
EXTRA_TECH = {
    "C01": "; abstract interpretation of object methods over symbolic shapes",
    "C04": "; abstract interpretation of whole object methods over symbolic shapes with NumPy-scalar typing",
    "C13": "; abstract interpretation of object methods over symbolic shapes",
    "C14": "; abstract interpretation of object methods over symbolic shapes with NumPy-scalar typing",
    "C15": "; abstract interpretation of object methods over symbolic shapes",
    "C20": "; abstract interpretation of CP1 object methods over symbolic shapes with NumPy-scalar typing",
}


for _k, _v in {'C01': ' Also (HOM1): homogeneity types -- every array of the interpreted methods is tagged with how it scales (|s|^m * sign/phase(s)^n per input object) under rescaling of homogeneous coordinates, tags propagated by exact transfer functions; Point.coords in the four scale-free models and Point.distance are proved invariant under any non-zero (also negative) rescaling of the stored representative; a known non-trivial tag on a returned array, a transcendental function of a scale-dependent quantity, or a threshold selection on one is a violation.', 'C12': ' Also (HOM1): homogeneity types -- every array of the interpreted methods is tagged with how it scales (|s|^m * sign/phase(s)^n per input object) under rescaling of homogeneous coordinates, tags propagated by exact transfer functions; the returned coordinate / distance / centre / radius / angle arrays of hyperbolic.py, projective.py and complex_projective.py (72 method rows on the current tree, count in the evidence; rows without a rescalable input are not counted) are proved invariant under independent non-zero (also negative, for CP^1 complex) rescaling of every input row; a returned array with a known non-trivial or mixed tag, a transcendental function / real part of a scale-dependent quantity, a scale-free quantity added to one that grows with the scale, a sum over independently scaled rows outside the one span-only helper, or a threshold selection on a scale-dependent quantity is a violation; unknown tags give no verdict. (NP2): no copy=False reaches np.array (NumPy >= 2 raises when a conversion is needed).', 'C13': ' (AR1): np.arange is never given a non-integer step (vertex counts are exact).', 'C15': ' Also (HOM1): homogeneity types -- every array of the interpreted methods is tagged with how it scales (|s|^m * sign/phase(s)^n per input object) under rescaling of homogeneous coordinates, tags propagated by exact transfer functions; reflection_across / from_reflection / fixed-point rows: no scale-free quantity is added to one that grows with the scale of the stored normal (E1c), no transcendental function of a scale-dependent quantity. (FLIP1): the eigenvector ordering is reversed on every path to the gather.', 'C16': ' Also (HOM1): homogeneity types -- every array of the interpreted methods is tagged with how it scales (|s|^m * sign/phase(s)^n per input object) under rescaling of homogeneous coordinates, tags propagated by exact transfer functions; affine_coords / in_affine_chart / endpoint_affine_coords are proved invariant under real and complex rescaling. (SVD1): rows of the V^H factor of np.linalg.svd are conjugated before use as kernel vectors.', 'C17': ' (STK1): rank-dependent stacking functions are applied only to arrays of explicit shape, never to values whose rank follows the batch axes.', 'C18': ' (SVD1): rows of the V^H factor of np.linalg.svd are conjugated before use as kernel vectors.', 'C20': ' Also (HOM1): homogeneity types -- every array of the interpreted methods is tagged with how it scales (|s|^m * sign/phase(s)^n per input object) under rescaling of homogeneous coordinates, tags propagated by exact transfer functions; spherical_coords, real_affine_coords, projective_to_spherical, circle_parameters, fs_diameter, center_inside, contains / intersects are proved invariant under independent complex rescaling (modulus and phase) of every row of the homogeneous data.', 'C05': ' (SYM1): sym_index orders its two indices or every call site passes them ordered.', 'C09': ' (ACC1): no first-wins `setdefault(k, [x])` accumulator in a per-label loop.', 'C03': ' (TS1): Transformation.apply reads every slot of its copy before writing it and returns that copy, never an object re-built through the class.'}.items():
    EXTRA_TEXT[_k] = EXTRA_TEXT.get(_k, '') + _v
for _k, _v in {'C01': '; homogeneity type system (scaling tags with exact transfer functions) over the interpreted methods', 'C12': '; homogeneity type system (scaling tags |s|^m * phase^n per input row, exact transfer functions, steady / unsteady masks) over the interpreted object methods; NumPy-API lint', 'C15': '; homogeneity type system over the interpreted reflection / fixed-point methods; path rule on the ordering flip', 'C16': '; homogeneity type system with real and complex scale variables; SVD conjugation lint', 'C20': '; homogeneity type system with complex scale variables (modulus degree and phase charge)', 'C13': '; NumPy-API lint (float-step arange)', 'C17': '; NumPy-API lint (rank-dependent stacking)', 'C18': '; SVD conjugation lint'}.items():
    EXTRA_TECH[_k] = EXTRA_TECH.get(_k, '') + _v


# rules written after the unsteered rounds 6 / 7 (DESIGN section 0.7)
_R7_TEXT = {
    "C01": " Also (RNG1, ENUM1): interval analysis of Point.distance's returned expression (its static range must cover every non-negative distance); every Model member is enumerated by the dispatch tables.",
    "C03": " Also (PINV1, INVS1, M3/M4): utils.invert never substitutes a pseudo-inverse; Representation.__setitem__ always recomputes the inverse letter; the word and matrix channels of the enumerator are combined on one side.",
    "C05": " Also (INVS1, WP1, SYM1): item assignment keeps a generator and its inverse letter mutually inverse; word values are a left-to-right product; symmetric-square index tables agree.",
    "C06": " Also (M5, BFS2, WP1): the recursion of _automaton_accepted decrements its length budget by exactly one per edge on every path.",
    "C09": " Also (OFS1, MC1, ACC1): every GAP sub-parser measures the offset it returns on the text it was given, never on a prefix-stripped or length-changed copy.",
    "C10": " Also (BFS3, BFS2, ACC1): the breadth-first traversals mark vertices when they are queued, so no vertex is expanded twice.",
    "C11": " Also (HOM1, SGN1, ORD1, LK2): Segment / TangentVector._compute_aux_data contain no selection or branch decided by comparing a scale-dependent quantity with an absolute threshold (homogeneity types); np.sign is never used as a +-1 factor on a quantity that may vanish.",
    "C12": " Also (NP3, NP2, LK2): NumPy API contracts that change a value's kind (np.sign / np.round on objects, like= from another object's integer data) are respected.",
    "C13": " Also (RNG1, AR1): interval analysis of the returned expressions of polygon_interior_angle, TangentVector.angle and regular_polygon_radius: the static range of the angle / radius covers every value that is a correct answer for some admissible input (an interior angle up to pi cannot come out of a bare arcsin).",
    "C14": " Also (HOM1, MEAN2, ENUM1): the arithmetic mean of ideal points is used as a sphere's centre / chord midpoint only where there are exactly two points; Segment._compute_aux_data has no threshold selection on scale-dependent data; every Model member reaches an arm.",
    "C15": " Also (SGN1, FLIP1, LK1, CX1).",
    "C16": " Also (SGN1, SVD1, CX1).",
    "C17": " Also (EXP1, CLO1, MK2, STK1): a polyhedral domain (linear constraints of the enclosing range() loops and guards, decided by Fourier-Motzkin elimination) proves that every power of a matrix entry in sl2_irrep has a non-negative exponent on every iteration.",
    "C19": " Also (RNG1, SGN1, ENUM1): circle_angles returns directions over the whole of (-pi, pi].",
}
_R7_TECH = {
    "C01": "; interval analysis of returned expressions",
    "C09": "; offset-provenance lint of the GAP sub-parsers",
    "C11": "; homogeneity type system over the derived-data constructors; sign-factor lint",
    "C13": "; interval analysis of returned angle / radius expressions",
    "C14": "; homogeneity type system; mean-as-centre lint",
    "C17": "; polyhedral (Fourier-Motzkin) analysis of loop-indexed exponents",
    "C19": "; interval analysis; sign-factor lint",
    "C03": "; API-contract lints on the inverse",
    "C06": "; path rule on the length budget",
    "C10": "; traversal marking rule",
}
for _k, _v in _R7_TEXT.items():
    EXTRA_TEXT[_k] = EXTRA_TEXT.get(_k, '') + _v
for _k, _v in _R7_TECH.items():
    EXTRA_TECH[_k] = EXTRA_TECH.get(_k, '') + _v


# rules written in rounds 8-10 (DESIGN sections 0.8-0.10)
_R10_TEXT = {
    "C01": " Also (TOL1, ZD2, D1): no tolerance branch inside the closed-form model conversions; strict interval analysis proves every divisor of the four chart maps non-zero over the interior; the coords dispatch is partially evaluated per Model member.",
    "C03": " Also (INV3, RC2, LK1): every inv() of the Transformation family is a genuine matrix inverse; row / column convention typing of matrices handed to the constructors; utils.invert stores no quotient into a buffer typed like an integer argument.",
    "C04": " Also (LK1, AX1): stacking a list of objects never fills a buffer typed like its first member; np.linalg.norm / np.max / np.min over composite data name their axis.",
    "C05": " Also (INVS2, AGG1): under compute_inverse=False the inverse letter gets the generator's own expression; the representation's dtype is promoted over all generators, never overwritten by the last one stored.",
    "C08": " Also (NONNEG1, PAIR1, OWN1, EIGH2): the signature ordering of diagonalize_form reads signed eigenvalues; (W, W^-1) come from an orthonormal source and receive the same updates; CoxeterGroup owns its matrix.",
    "C09": " Also (DC1, VROW1, RET1, INVMAP1): no view is one copy of a whole caller container; the rebuilt label view has a row per vertex; inplace=False never returns self; no comprehension inverts label -> target rows into singleton lists.",
    "C10": " Also (RET1, INVMAP1).",
    "C11": " Also (S1u): astype / change_base_ring send the three data slots through the same operations.",
    "C12": " Also (LK3, LRU1): caller data is never item-assigned into an untyped (float64) buffer; no lru_cache on functions taking array data.",
    "C13": " Also (RC2, ORI1, FORM1, LRU1, HOM1 on the C13 rows): convention typing at the constructors; the orientation fix negates one row; one form per computation.",
    "C14": " Also (C2 through self.__dict__ / setdefault caches).",
    "C16": " Also (LK3, EIGH2): eigh only under a comparison with the conjugate transpose.",
    "C17": " Also (LK3).",
    "C18": " Also (ORI1, NONNEG1, PAIR1, FORM1, EIGH2).",
    "C20": " Also: unpacking an array iterates its first axis in the shape interpreter (a composite axis there is a ShapeError).",
}
for _k, _v in _R10_TEXT.items():
    EXTRA_TEXT[_k] = EXTRA_TEXT.get(_k, '') + _v


# rules written in round 11 (DESIGN section 0.11: defects reported by the hunters)
_R11_TEXT = {
    "C01": " Also (U1 on public flags): an unbound name in an arm that only a documented flag of a public function reaches is a violation even when no call inside the package takes the arm.",
    "C03": " Also (DUAL1): in Transformation.apply dual data goes through the inverse-transpose branch, point and auxiliary data do not.",
    "C05": " Also (RESPLIT1, DEFER1, GENACC1): a returned re.split token list is filtered for empty tokens; a method forwarding its parameter to one that means 'None = this object's setting' declares it with default None; loops over generator names read the generator table, not the word evaluator.",
    "C09": " Also (ITER1, MD1, HID1): a parameter consumed by two passes is materialised first; the constructor stores a copy of its start-state list; both constructor routes register edge targets as vertices.",
    "C10": " Also (MD1, HID1).",
    "C11": " Also (DUAL1, HOMDIV1): the denominators of Segment._compute_aux_data have a single multidegree in the two row representatives.",
    "C12": " Also (VIEWAUG1): no value-returning helper of utils/core.py updates a view of its parameter in place (it would compute in the caller's integer dtype).",
    "C13": " Also (ACOS1): the argument of arccos in TangentVector.angle is clamped into [-1, 1] on both sides.",
    "C14": " Also (HOMDIV1): a small degree calculus over the Gram entries shows every denominator of the ideal-endpoint computation homogeneous in each representative (an inhomogeneous one vanishes for some lifts of every segment).",
    "C16": " Also (NEG0): no `x[-k:]` with a computed k that may be 0.",
    "C17": " Also (FWD1): every closure returned by lie.hom._wrap_hom forwards *args and **kwargs to the wrapped map.",
    "C18": " Also (NEG0, VIEWAUG1).",
    "C19": " Also (CURAX1, HOMDIV1): every artist-creating call of a draw_* method goes through self.ax, never pyplot's current axes.",
    "C20": " Also (U1 on public flags).",
}
_R11B_TEXT = {
    "C01": " (LK4, PUTMASK1): item assignment into a composite promotes the stored array first; the values of np.putmask are not computed on the masked selection.",
    "C04": " Also (PUTMASK1, SH5 factory rows): np.putmask values are full-shape; get_origin / get_base_tangent are interpreted with the composite shape passed as their argument.",
    "C05": " (MD1): the constructor stores a copy of its relator list.",
    "C06": " Also (MEMO1, V2r): nothing read from the memo of _automaton_accepted is the target of out= or an in-place operation; rename_generators(inplace=True) rebuilds all three views.",
    "C08": " Also (ITER1): no parameter of coxeter.py is consumed by two passes without being materialised.",
    "C09": " (ELIST1, RETARGET1, N2): the redundancy test of add_edges never tests a label list for membership; a re-targeted label leaves its old edge in every view; no truthiness test on a single vertex / label.",
    "C10": " (N2).",
    "C11": " (LK4, AX1, HD1): np.concatenate of leading-axis slices names its axis; project_to_hyperboloid is homogeneous of degree 0 in the base point.",
    "C12": " (CAST1, LK4, RAW1): integer dtypes are recognised by kind, not by castability; the constructors C12 names convert their array-like argument before using ndarray attributes on it.",
    "C13": " (SH5 factory rows): get_base_tangent(dimension, shape) gives a composite of that shape.",
    "C17": " (SHARED1): entries of a module-level container are returned as copies or never written by callers.",
    "C18": " (HOM1 client row): utils.projection takes no branch on an absolute threshold of a scale-dependent square norm.",
    "C20": " (EMATH1, PUTMASK1): an np.emath result is not combined in place into an unpromoted array.",
}
_R11C_TEXT = {
    "C08": " (DIAG1, ASTYPE1, CMPSTMT1, NULLDIR1): from_diagram looks pairs up with the default label 2; real-valued matrices are cast only to dtypes from check_type(integer_type=False); no bare comparison statement; diagonalize_form leaves null directions unscaled (W invertible for degenerate forms).",
    "C12": " (ASTYPE1).",
    "C15": " Also (CONTRA1): a parameter read under try / except AttributeError has no other non-ndarray attribute read outside such a try (from_reflection accepts a plain matrix).",
    "C10": " Also (BFS5): every push onto a traversal queue records the vertex where it is queued.",
    "C07": " (BFS5). INFC also reads the vectorised (masked store / np.where) form of the infinity convention; ORD2 reads dict(enumerate(..)) and dict comprehensions over enumerate(..).",
}
for _k, _v in _R11_TEXT.items():
    EXTRA_TEXT[_k] = EXTRA_TEXT.get(_k, '') + _v
for _k, _v in _R11C_TEXT.items():
    EXTRA_TEXT[_k] = EXTRA_TEXT.get(_k, '') + _v
for _k, _v in _R11B_TEXT.items():
    EXTRA_TEXT[_k] = EXTRA_TEXT.get(_k, '') + _v


def _engine_from_evidence(pid, default):
    path = os.path.join(HERE, "evidence", f"{pid}.json")
    try:
        with open(path) as f:
            per = json.load(f)["coverage"]["per_rule"]
        names = sorted(k for k in per if k != "SELFTEST")
        return " + ".join(names) if names else default
    except Exception:
        return default


def main(implemented):
    checks = []
    for pid in sorted(CHECKS):
        if pid not in implemented:
            continue
        c = dict(CHECKS[pid])
        c["engine"] = _engine_from_evidence(pid, c["engine"])
        c["text"] = c["text"] + EXTRA_TEXT.get(pid, "")
        c["technique"] = c["technique"] + EXTRA_TECH.get(pid, "")
        checks.append({
            "property_id": pid,
            "quick_cmd": f"/venv/bin/python -m sa check {pid} --tier quick",
            "thorough_cmd": f"/venv/bin/python -m sa check {pid} --tier thorough",
            "evidence_file": f"evidence/{pid}.json",
            "replay_cmd_template": "/venv/bin/python -m sa replay {path}",
            "engine": c["engine"],
            "level_claimed": {"category": "other", "text": c["text"],
                              "design_ref": c["ref"]},
            "level_note": TRUST,
            "technique": "static analysis: " + c["technique"],
        })
    na = [{"property_id": k, "reason": v} for k, v in sorted(NA.items())]
    for pid in sorted(CHECKS):
        if pid not in implemented:
            na.append({"property_id": pid,
                       "reason": "checker not yet built in this round "
                                 "(planned: " + CHECKS[pid]["engine"] + ")"})
    man = {
        "version": 1,
        "setup_cmd": "true",
        "hooks": {
            "guard": "GEOMETRY_TOOLS_VERIF",
            "enable": "none needed: the checks only parse /repo's sources, "
                      "nothing is executed or instrumented",
            "baseline_off_cmd": "cd /repo && /venv/bin/python -m pytest -ra -q "
                                "-p no:cacheprovider --timeout=900 "
                                "--continue-on-collection-errors",
            "source_commits": [],
            "add_only": True,
        },
        "engines": [{
            "name": "sa",
            "path": "sa/",
            "serves_properties": [c["property_id"] for c in checks],
            "kind_free_text": "repository-specific static analyser over "
                              "ast/symtable (project model, CHA call graph, "
                              "flag specialiser, alias-root interpreter, "
                              "statement CFG, shape interpreter, homogeneity type system)",
        }],
        "checks": checks,
        "notes": "Static analysis only; see DESIGN.md. Exit codes: 0 holds, "
                 "1 VIOLATION, 2 ANALYSIS-ERROR (vanished anchor / "
                 "unsupported construct).",
        "not_applicable": sorted(na, key=lambda x: x["property_id"]),
    }
    with open(os.path.join(HERE, "MANIFEST.json"), "w") as f:
        json.dump(man, f, indent=1)
        f.write("\n")


if __name__ == "__main__":
    impl = set(sys.argv[1:])
    if not impl:
        impl = {f[:-3].upper() for f in os.listdir(os.path.join(HERE, "sa", "props"))
                if f.startswith("c") and f.endswith(".py")}
    main(impl)
