#!/usr/bin/env python3
"""Apply each /verif/seeded/<id>/patch.diff to a scratch copy of /repo's
working tree and report which property checks fire (development aid).
usage: eval_all_seeds.py [prefix]   e.g. r4-"""
import json, os, shutil, subprocess, sys, tempfile
from concurrent.futures import ProcessPoolExecutor
VERIF = os.path.dirname(os.path.dirname(os.path.abspath(__file__)))
PIDS = ["C01", "C02", "C03", "C04", "C05", "C06", "C07", "C08", "C09", "C10", "C11", "C12",
        "C13", "C14", "C15", "C16", "C17", "C18", "C19", "C20"]


def one(sid):
    tmp = tempfile.mkdtemp(prefix="sa_seed_")
    try:
        shutil.copytree("/repo/geometry_tools", os.path.join(tmp, "geometry_tools"),
                        ignore=shutil.ignore_patterns("__pycache__"))
        p = subprocess.run(["patch", "-p1", "-s", "-i",
                            os.path.join(VERIF, "seeded", sid, "patch.diff")],
                           cwd=tmp, capture_output=True, text=True)
        if p.returncode != 0:
            return sid, "STALE", {}
        fired = {}
        for pid in PIDS:
            c = subprocess.run(f"cd {VERIF} && SA_NO_EVIDENCE=1 /venv/bin/python -m sa check {pid} --root {tmp}",
                               shell=True, capture_output=True, text=True)
            if c.returncode != 0:
                rules = sorted({l.split("rule=")[1].split()[0] for l in c.stdout.splitlines()
                                if l.strip().startswith("rule=")})
                fired[pid] = rules if c.returncode == 1 else ["EXIT2"]
        return sid, "ok", fired
    finally:
        shutil.rmtree(tmp, ignore_errors=True)


if __name__ == "__main__":
    pre = sys.argv[1] if len(sys.argv) > 1 else ""
    sids = sorted(d for d in os.listdir(os.path.join(VERIF, "seeded"))
                  if d.startswith(pre) and os.path.isdir(os.path.join(VERIF, "seeded", d)))
    with ProcessPoolExecutor(14) as ex:
        for sid, st, fired in ex.map(one, sids):
            print(json.dumps({"seed": sid, "status": st, "fired": fired}))
