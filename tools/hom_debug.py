"""Print the HOM1 verdict and events of selected rows.
usage: hom_debug.py <parts,comma> <Class.method> [root]"""
import os
import sys
sys.path.insert(0, os.path.dirname(os.path.dirname(os.path.abspath(__file__))))
os.environ["SA_HOM_DEBUG"] = "1"
os.environ["SA_NO_EVIDENCE"] = "1"
from sa.__main__ import Context          # noqa: E402
from sa.rules import shape_rules as S    # noqa: E402

root = sys.argv[3] if len(sys.argv) > 3 else "/repo"
ctx = Context(root, "C12", os.environ.get("VERIF_TIER", "quick"), quiet=True)
S.rule_hom1(ctx, parts=tuple(sys.argv[1].split(",")), only={sys.argv[2]})
