#!/usr/bin/env python3
"""Development aid: does every break of the self-test (text mutants and seeded
changes) still fire after a generated behaviour-preserving refactoring has
been applied on top of it?  usage: robust_detection.py <rename|rettemp|ifinvert|
eqswap|cmpswap|kwreverse|npfunc>"""
import sys, os, tempfile, shutil, json
sys.path.insert(0, "/verif")
from concurrent.futures import ProcessPoolExecutor
from sa import selftest as S
import importlib.util
MODE = sys.argv[1]   # rename | rettemp | ifinvert | eqswap | cmpswap | kwreverse | npfunc

def load(name):
    spec = importlib.util.spec_from_file_location(name, f"/verif/tools/{name}.py")
    m = importlib.util.module_from_spec(spec); spec.loader.exec_module(m); return m

def job(j):
    kind, vid, pids, rule, rel, old, new = j
    os.environ["SA_NO_EVIDENCE"] = "1"
    from sa.__main__ import run_check
    tmp = tempfile.mkdtemp(prefix="rob_")
    try:
        shutil.copytree("/repo/geometry_tools", os.path.join(tmp, "geometry_tools"), ignore=shutil.ignore_patterns("__pycache__"))
        err = S._apply_patch(tmp, rel) if kind == "seeded" else S._apply(tmp, rel, old, new)
        if err: return (vid, "stale", [])
        out = tempfile.mkdtemp(prefix="rob_o_")
        if MODE == "rename":
            load("rename_locals").main(os.path.join(tmp, "geometry_tools"), os.path.join(out, "geometry_tools"), "_q")
        else:
            load("gen_refactor").main(MODE, os.path.join(tmp, "geometry_tools"), os.path.join(out, "geometry_tools"))
        shutil.rmtree(os.path.join(tmp, "geometry_tools")); shutil.move(os.path.join(out, "geometry_tools"), os.path.join(tmp, "geometry_tools")); shutil.rmtree(out, ignore_errors=True)
        res = []
        for pid in pids:
            code, rep = run_check(pid, "quick", tmp, quiet=True)
            rules = sorted({r["rule"] for r in rep.records if r["verdict"] == "violation"}) if rep else []
            res.append((pid, code, rule in rules, rules))
        return (vid, "ran", res)
    finally:
        shutil.rmtree(tmp, ignore_errors=True)

jobs = [("mutant", v, ps, rule, rel, old, new) for v, ps, rule, rel, old, new in S.MUTANTS]
sd = "/verif/seeded"
jobs += [("seeded", "seeded-" + sid, [pid], rule, os.path.join(sd, sid, "patch.diff"), None, None) for sid, pid, rule in S.SEEDED]
lost = []; kept = 0; other = 0
with ProcessPoolExecutor(14) as ex:
    for vid, st, res in ex.map(job, jobs):
        if st != "ran": continue
        for pid, code, hit, rules in res:
            if hit: kept += 1
            elif code == 1: other += 1; lost.append((vid, pid, "other-rule", rules))
            else: lost.append((vid, pid, f"exit{code}", rules))
print(MODE, "kept", kept, "fires-by-other-rule", other, "lost", len([l for l in lost if l[2] != 'other-rule']))
for l in lost: print("  ", l)
