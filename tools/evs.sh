#!/bin/bash
# evs.sh <seed-id> <prop>...: apply a stored seeded patch to a scratch copy and
# print the rules the given properties' checks fire
sid=$1; shift
scr=$(mktemp -d /tmp/evs.XXXXXX)
cp -r /repo/geometry_tools $scr/
d=/verif/seeded/$sid; [ -d $d ] || d=/verif/neutral/$sid
(cd $scr && patch -p1 -s < $d/patch.diff) || { echo "PATCH FAILED"; rm -rf $scr; exit 3; }
for c in "$@"; do
  SA_NO_EVIDENCE=1 /venv/bin/python -m sa check $c --root $scr 2>&1 | grep -A2 "^VIOL\|ANALYSIS" | grep "rule=\|ANALYSIS" | head -4 | cut -c1-300
done
rm -rf $scr
