#!/usr/bin/env python3
"""Rebase stored patches that no longer apply to /repo's HEAD.
usage: rebase_stale.py <old-base-commit> <id>...   (ids: seeded-<sid> | refactor-<nid>)
For each id: apply the stored patch at the old base in a scratch worktree, commit,
cherry-pick onto /repo's HEAD (3-way), and re-confirm: a seeded change's demo must
exit 0 on HEAD and non-zero with the patch; a refactoring's probe digest must be
identical on HEAD and with the patch.  Only a confirmed rebase is written back
(patch.diff + a `rebased` note in meta.json).  Conflicts / unconfirmed: reported."""
import json, os, re, subprocess, sys, shutil
V = os.path.dirname(os.path.dirname(os.path.abspath(__file__)))
old = sys.argv[1]
ids = sys.argv[2:]
NOTE = sys.argv[0] and os.environ.get("REBASE_NOTE", "")


def sh(cmd, env=None, cwd=None):
    return subprocess.run(cmd, shell=True, capture_output=True, text=True,
                          env=env, cwd=cwd)


head = sh("git -C /repo rev-parse --short HEAD").stdout.strip()
res = {}
for vid in ids:
    kind, _, name = vid.partition("-")
    if kind == "seeded":
        d = os.path.join(V, "seeded", name)
        wt = f"/tmp/wt/{name}"
        m = None
        demo = os.path.join(d, "demo.py")
        try:
            txt = open(demo).read()
            mm = re.search(r"/tmp/wt/[A-Za-z0-9_-]+", txt)
            if mm:
                wt = mm.group(0)
        except OSError:
            pass
    else:
        d = os.path.join(V, "neutral", name)
        region = name.split("-")[0]
        wt = f"/tmp/wt/{region}"
    patch = os.path.join(d, "patch.diff")
    sh(f"git -C /repo worktree remove --force {wt}")
    shutil.rmtree(wt, ignore_errors=True)
    sh("git -C /repo worktree prune")
    a = sh(f"git -C /repo worktree add --detach {wt} {old}")
    if a.returncode:
        res[vid] = "worktree: " + a.stderr[-200:]
        continue
    try:
        a = sh(f"git -C {wt} apply {patch}")
        if a.returncode:
            res[vid] = "does not apply at old base: " + a.stderr[-200:]
            continue
        sh(f"git -C {wt} add -A && git -C {wt} -c user.name=x -c user.email=x@x commit -qm tmp")
        tmp = sh(f"git -C {wt} rev-parse HEAD").stdout.strip()
        sh(f"git -C {wt} checkout -q --detach {head}")
        c = sh(f"git -C {wt} -c user.name=x -c user.email=x@x cherry-pick {tmp}")
        if c.returncode:
            conf = sh(f"git -C {wt} diff --name-only --diff-filter=U").stdout.split()
            sh(f"git -C {wt} cherry-pick --abort")
            res[vid] = "CONFLICT in " + ",".join(conf)
            continue
        newpatch = sh(f"git -C {wt} diff {head} HEAD").stdout
        env = dict(os.environ, PYTHONPATH=wt, MPLBACKEND="Agg")
        ok = False
        if kind == "seeded":
            with_p = sh(f"/venv/bin/python {demo}", env=env, cwd=wt)
            sh(f"git -C {wt} checkout -q --detach {head}")
            base = sh(f"/venv/bin/python {demo}", env=env, cwd=wt)
            ok = base.returncode == 0 and with_p.returncode != 0
            how = f"demo exits {base.returncode} on HEAD {head}, {with_p.returncode} with the patch"
        else:
            probe = os.path.join(V, "neutral", f"{region}-probe.py")
            with_p = sh(f"/venv/bin/python {probe}", env=env, cwd=wt)
            sh(f"git -C {wt} checkout -q --detach {head}")
            base = sh(f"/venv/bin/python {probe}", env=env, cwd=wt)
            ok = (base.returncode == 0 and with_p.stdout == base.stdout
                  and len(base.stdout) > 100)
            how = (f"probe rc {base.returncode}/{with_p.returncode}, outputs "
                   f"{'identical' if with_p.stdout == base.stdout else 'DIFFER'}")
        if not ok:
            res[vid] = "NOT CONFIRMED: " + how
            open(f"/tmp/rebase_{vid}.diff", "w").write(newpatch)
            continue
        open(patch, "w").write(newpatch)
        mp = os.path.join(d, "meta.json")
        meta = json.load(open(mp))
        note = (f"re-applied on top of the round-11 fixes (HEAD {head}) by "
                f"3-way cherry-pick from {old}, no conflict; {how}")
        meta["rebased"] = (meta.get("rebased", "") + " | " if meta.get("rebased") else "") + note
        json.dump(meta, open(mp, "w"), indent=1)
        res[vid] = "ok: " + how
    finally:
        sh(f"git -C /repo worktree remove --force {wt}")
        shutil.rmtree(wt, ignore_errors=True)
        sh("git -C /repo worktree prune")
for k, v in res.items():
    print(k, "->", v)
