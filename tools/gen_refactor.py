#!/usr/bin/env python3
"""Generated behaviour-preserving refactorings of the whole package (used by
the self-test next to the sub-agents' hand-written ones).

  rettemp    `return E`  ->  `_ret_value = E; return _ret_value`
             (not in generators; E not a bare name / constant)
  ifinvert   `if c: A else: B`  ->  `if not c: B else: A`  (both arms present,
             no elif chain)
  eqswap     `x == K` / `x != K` with K a str / int / None-free constant
             -> `K == x` / `K != x`
  cmpswap    `a < b` -> `b > a` (likewise <=, >, >=), single comparisons only
  npfunc     `x.swapaxes(a, b)` / `x.sum(..)` / `x.squeeze(..)` -> np.<name>(x, ..)
  lastkw     last positional argument of a call to a package function passed
             by keyword (see LastKw)
  argtemp    `x = f(g(a), b)` -> `_arg1 = g(a); x = f(_arg1, b)`
  comploop   `xs = [E for v in IT]` -> `xs = []; for v in IT: xs.append(E)`
  kwreverse  keyword arguments of a call in reverse order when every keyword
             value is a name / constant / attribute (no evaluation-order
             effect) and there is no **kwargs in the call

usage: gen_refactor.py <mode> <package dir in> <package dir out>  -> count"""
import ast, glob, os, sys


class RetTemp(ast.NodeTransformer):
    def __init__(self):
        self.n = 0

    def _is_generator(self, fn):
        for x in ast.walk(fn):
            if isinstance(x, (ast.Yield, ast.YieldFrom)):
                return True
        return False

    def visit_FunctionDef(self, fn):
        self.generic_visit(fn)
        if self._is_generator(fn):
            return fn

        def fix(body):
            out = []
            for st in body:
                for fld in ("body", "orelse", "finalbody"):
                    sub = getattr(st, fld, None)
                    if isinstance(sub, list) and sub and not isinstance(
                            st, (ast.FunctionDef, ast.ClassDef)):
                        setattr(st, fld, fix(sub))
                if isinstance(st, ast.Try):
                    for h in st.handlers:
                        h.body = fix(h.body)
                if isinstance(st, ast.Return) and st.value is not None \
                        and not isinstance(st.value, (ast.Name,
                                                      ast.Constant)):
                    self.n += 1
                    out.append(ast.Assign(
                        targets=[ast.Name(id="_ret_value", ctx=ast.Store())],
                        value=st.value, lineno=st.lineno))
                    out.append(ast.Return(
                        value=ast.Name(id="_ret_value", ctx=ast.Load())))
                else:
                    out.append(st)
            return out
        fn.body = fix(fn.body)
        return fn


class IfInvert(ast.NodeTransformer):
    def __init__(self):
        self.n = 0

    def visit_If(self, st):
        self.generic_visit(st)
        if st.orelse and not (len(st.orelse) == 1
                              and isinstance(st.orelse[0], ast.If)):
            self.n += 1
            return ast.If(test=ast.UnaryOp(op=ast.Not(), operand=st.test),
                          body=st.orelse, orelse=st.body)
        return st


class EqSwap(ast.NodeTransformer):
    def __init__(self):
        self.n = 0

    def visit_Compare(self, c):
        self.generic_visit(c)
        if len(c.ops) == 1 and isinstance(c.ops[0], (ast.Eq, ast.NotEq)) \
                and isinstance(c.comparators[0], ast.Constant) \
                and isinstance(c.comparators[0].value, (str, int)) \
                and not isinstance(c.comparators[0].value, bool) \
                and not isinstance(c.left, ast.Constant):
            self.n += 1
            return ast.Compare(left=c.comparators[0], ops=c.ops,
                               comparators=[c.left])
        return c


class CmpSwap(ast.NodeTransformer):
    """`a < b` -> `b > a` (and <=, >, >=) for single comparisons"""
    MIRROR = {ast.Lt: ast.Gt, ast.Gt: ast.Lt, ast.LtE: ast.GtE,
              ast.GtE: ast.LtE}

    def __init__(self):
        self.n = 0

    def visit_Compare(self, c):
        self.generic_visit(c)
        if len(c.ops) == 1 and type(c.ops[0]) in self.MIRROR:
            self.n += 1
            return ast.Compare(left=c.comparators[0],
                               ops=[self.MIRROR[type(c.ops[0])]()],
                               comparators=[c.left])
        return c


class NpFunc(ast.NodeTransformer):
    """`x.swapaxes(a, b)` -> `np.swapaxes(x, a, b)`, likewise .sum / .squeeze
    (no class of the package defines these names, and the NumPy functions
    accept everything the methods' receivers can be)"""
    NAMES = ("swapaxes", "sum", "squeeze")

    def __init__(self):
        self.n = 0

    def visit_Call(self, c):
        self.generic_visit(c)
        if isinstance(c.func, ast.Attribute) and c.func.attr in self.NAMES \
                and not (isinstance(c.func.value, ast.Name)
                         and c.func.value.id in ("np", "numpy", "utils")):
            self.n += 1
            return ast.Call(
                func=ast.Attribute(value=ast.Name(id="np", ctx=ast.Load()),
                                   attr=c.func.attr, ctx=ast.Load()),
                args=[c.func.value] + c.args, keywords=c.keywords)
        return c


class LastKw(ast.NodeTransformer):
    """the last positional argument of a call to a function / method of the
    package is passed by keyword instead: `f(a, b)` -> `f(a, name=b)`.  Only
    when every definition of that name in the package agrees on the
    parameter at that position, has no *args, and is not a property /
    classmethod; calls through a class name (`Cls.m(self, ..)`) and calls
    with a starred argument are left alone."""
    INDEX = {}
    CLASSES = set()

    def __init__(self):
        self.n = 0

    @classmethod
    def build_index(cls, root):
        cls.INDEX, cls.CLASSES = {}, set()
        for p in glob.glob(os.path.join(root, "**/*.py"), recursive=True):
            t = ast.parse(open(p).read())
            for n in ast.walk(t):
                if isinstance(n, ast.ClassDef):
                    cls.CLASSES.add(n.name)
                    for m in n.body:
                        if isinstance(m, ast.FunctionDef):
                            cls.INDEX.setdefault(m.name, []).append((m, True))
            for n in t.body:
                if isinstance(n, ast.FunctionDef):
                    cls.INDEX.setdefault(n.name, []).append((n, False))

    def visit_Call(self, c):
        self.generic_visit(c)
        if len(c.args) < 2 or any(isinstance(a, ast.Starred)
                                  for a in c.args):
            return c
        if isinstance(c.func, ast.Name):
            name, via_attr = c.func.id, False
        elif isinstance(c.func, ast.Attribute):
            name, via_attr = c.func.attr, True
            root = c.func.value
            while isinstance(root, ast.Attribute):
                root = root.value
            if isinstance(root, ast.Name) and (
                    root.id in self.CLASSES or root.id in (
                        "np", "numpy", "scipy", "math", "copy", "itertools",
                        "plt", "matplotlib", "re", "os", "super")):
                return c
            if isinstance(c.func.value, ast.Call):
                return c                 # super().m(...), f(x).m(...)
        else:
            return c
        cands = self.INDEX.get(name)
        if not cands or name.startswith("__"):
            return c
        pos = len(c.args) - 1
        pname = None
        for fn, is_method in cands:
            decos = {ast.unparse(d) for d in fn.decorator_list}
            if decos - {"staticmethod"}:
                return c
            if fn.args.vararg is not None or fn.args.posonlyargs:
                return c
            params = [a.arg for a in fn.args.args]
            off = 1 if (is_method and "staticmethod" not in decos) else 0
            if via_attr != is_method and not (via_attr and not is_method):
                # a bare-name call of a method name (local alias): skip
                return c
            if via_attr and not is_method:
                off = 0                  # module.function(...)
            i = pos + off
            if i >= len(params):
                return c
            if pname is None:
                pname = params[i]
            elif pname != params[i]:
                return c
        if pname is None or any(k.arg == pname for k in c.keywords):
            return c
        self.n += 1
        last = c.args[-1]
        c.args = c.args[:-1]
        c.keywords = [ast.keyword(arg=pname, value=last)] + c.keywords
        return c


class _StmtRewriter(ast.NodeTransformer):
    """base: rewrite statement lists of function bodies"""

    def __init__(self):
        self.n = 0
        self.k = 0

    def fresh(self, stem):
        self.k += 1
        return f"_{stem}{self.k}"

    def rewrite(self, st, fn):
        return [st]

    def visit_FunctionDef(self, fn):
        self.generic_visit(fn)
        self._fn = fn

        def fix(body):
            out = []
            for st in body:
                for fld in ("body", "orelse", "finalbody"):
                    sub = getattr(st, fld, None)
                    if isinstance(sub, list) and sub and not isinstance(
                            st, (ast.FunctionDef, ast.ClassDef)):
                        setattr(st, fld, fix(sub))
                if isinstance(st, ast.Try):
                    for h in st.handlers:
                        h.body = fix(h.body)
                out.extend(self.rewrite(st, fn))
            return out
        fn.body = fix(fn.body)
        return fn


class ArgTemp(_StmtRewriter):
    """`x = f(g(a), b)` -> `_arg1 = g(a); x = f(_arg1, b)` when the first
    positional argument of the assigned call is itself a call and `f` is a
    plain name / attribute chain (looking it up has no effect)."""

    def rewrite(self, st, fn):
        if isinstance(st, (ast.Assign, ast.Return)) and isinstance(
                st.value, ast.Call) and st.value.args and isinstance(
                st.value.args[0], ast.Call):
            f = st.value.func
            while isinstance(f, ast.Attribute):
                f = f.value
            if isinstance(f, ast.Name):
                self.n += 1
                t = self.fresh("arg")
                inner = st.value.args[0]
                st.value.args[0] = ast.Name(id=t, ctx=ast.Load())
                return [ast.copy_location(ast.Assign(
                    targets=[ast.Name(id=t, ctx=ast.Store())], value=inner),
                    st), st]
        return [st]


class CompLoop(_StmtRewriter):
    """`xs = [E for v in IT]` -> `xs = []; for v in IT: xs.append(E)` for a
    single-generator list comprehension without conditions whose loop
    variables occur nowhere else in the function."""

    def rewrite(self, st, fn):
        if isinstance(st, ast.Assign) and len(st.targets) == 1 \
                and isinstance(st.targets[0], ast.Name) \
                and isinstance(st.value, ast.ListComp) \
                and len(st.value.generators) == 1 \
                and not st.value.generators[0].ifs \
                and not st.value.generators[0].is_async:
            g = st.value.generators[0]
            lv = {x.id for x in ast.walk(g.target)
                  if isinstance(x, ast.Name)}
            inside = {id(x) for x in ast.walk(st)}
            clash = any(isinstance(x, ast.Name) and x.id in lv
                        and id(x) not in inside for x in ast.walk(fn))
            tgt = st.targets[0].id
            uses_tgt = any(isinstance(x, ast.Name) and x.id == tgt
                           for x in ast.walk(st.value))
            if not clash and not uses_tgt and tgt not in lv:
                self.n += 1
                init = ast.copy_location(ast.Assign(
                    targets=[ast.Name(id=tgt, ctx=ast.Store())],
                    value=ast.List(elts=[], ctx=ast.Load())), st)
                loop = ast.copy_location(ast.For(
                    target=g.target, iter=g.iter, body=[ast.Expr(
                        value=ast.Call(func=ast.Attribute(
                            value=ast.Name(id=tgt, ctx=ast.Load()),
                            attr="append", ctx=ast.Load()),
                            args=[st.value.elt], keywords=[]))],
                    orelse=[]), st)
                return [init, loop]
        return [st]


class KwReverse(ast.NodeTransformer):
    def __init__(self):
        self.n = 0

    def visit_Call(self, c):
        self.generic_visit(c)
        if len(c.keywords) >= 2 and all(
                k.arg is not None and isinstance(
                    k.value, (ast.Name, ast.Constant, ast.Attribute))
                for k in c.keywords):
            self.n += 1
            c.keywords = list(reversed(c.keywords))
        return c


MODES = {"rettemp": RetTemp, "ifinvert": IfInvert, "eqswap": EqSwap,
         "kwreverse": KwReverse, "cmpswap": CmpSwap, "npfunc": NpFunc,
         "lastkw": LastKw, "argtemp": ArgTemp, "comploop": CompLoop}


def main(mode, root_in, root_out):
    total = 0
    if mode == "lastkw":
        LastKw.build_index(root_in)
    for p in glob.glob(os.path.join(root_in, "**/*.py"), recursive=True):
        rel = os.path.relpath(p, root_in)
        out = os.path.join(root_out, rel)
        os.makedirs(os.path.dirname(out), exist_ok=True)
        t = ast.parse(open(p).read())
        tr = MODES[mode]()
        t = tr.visit(t)
        ast.fix_missing_locations(t)
        total += tr.n
        open(out, "w").write(ast.unparse(t) + "\n")
    return total


if __name__ == "__main__":
    print(main(sys.argv[1], sys.argv[2], sys.argv[3]))
