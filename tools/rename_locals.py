#!/usr/bin/env python3
"""Behaviour-preserving source transformation used by the self-test: rename
every local variable (names stored inside a function that are neither
parameters, nor global / nonlocal, nor module-level names, nor builtins) of
every function of the package by appending a suffix.  Confirmed neutral on
the current tree: the suite is unchanged and the 34 probe digests are
identical except for the variable name quoted in two UnboundLocalError
messages.  A rule that keys on the *name* of a local fails on the result.

usage: rename_locals.py <package dir in> <package dir out> <suffix>"""
import ast, sys, os, glob, builtins
SUFFIX = ['_q']

BUILTINS = set(dir(builtins))
class Ren(ast.NodeTransformer):
    def __init__(self, names): self.names = names
    def visit_Name(self, n):
        if n.id in self.names: n.id = n.id + SUFFIX[0]
        return n
    def visit_ExceptHandler(self, n):
        if n.name in self.names: n.name = n.name + SUFFIX[0]
        self.generic_visit(n); return n
def process_function(fn, module_level):
    stored = set()
    params = set()
    banned = set()
    for x in ast.walk(fn):
        if isinstance(x, (ast.FunctionDef, ast.Lambda, ast.AsyncFunctionDef)):
            a = x.args
            for p in a.posonlyargs + a.args + a.kwonlyargs: params.add(p.arg)
            if a.vararg: params.add(a.vararg.arg)
            if a.kwarg: params.add(a.kwarg.arg)
            if isinstance(x, ast.FunctionDef) and x is not fn: banned.add(x.name)
        elif isinstance(x, (ast.Global, ast.Nonlocal)): banned |= set(x.names)
        elif isinstance(x, ast.Name) and isinstance(x.ctx, ast.Store): stored.add(x.id)
        elif isinstance(x, ast.ExceptHandler) and x.name: stored.add(x.name)
        elif isinstance(x, (ast.Import, ast.ImportFrom)):
            for al in x.names: banned.add((al.asname or al.name).split(".")[0])
        elif isinstance(x, ast.ClassDef): banned.add(x.name)
    names = {n for n in stored if n not in params and n not in banned and n not in module_level and n not in BUILTINS and not n.startswith("__")}
    Ren(names).visit(fn)
    return len(names)

def main(root_in, root_out, suffix):
    SUFFIX[0] = suffix
    total = 0
    for p in glob.glob(os.path.join(root_in, "**/*.py"), recursive=True):
        rel = os.path.relpath(p, root_in)
        out = os.path.join(root_out, rel)
        os.makedirs(os.path.dirname(out), exist_ok=True)
        src = open(p).read()
        t = ast.parse(src)
        module_level = set()
        for n in t.body:
            for x in ast.walk(n) if not isinstance(n, (ast.FunctionDef, ast.ClassDef)) else []:
                if isinstance(x, ast.Name) and isinstance(x.ctx, ast.Store): module_level.add(x.id)
            if isinstance(n, (ast.FunctionDef, ast.ClassDef)): module_level.add(n.name)
            if isinstance(n, (ast.Import, ast.ImportFrom)):
                for al in n.names: module_level.add((al.asname or al.name).split(".")[0])
        for n in t.body:
            if isinstance(n, ast.FunctionDef): total += process_function(n, module_level)
            elif isinstance(n, ast.ClassDef):
                for m in n.body:
                    if isinstance(m, ast.FunctionDef): total += process_function(m, module_level)
        open(out, "w").write(ast.unparse(t) + "\n")
    return total


if __name__ == '__main__':
    print('renamed', main(sys.argv[1], sys.argv[2], sys.argv[3]), 'locals')
