#!/usr/bin/env python3
"""Confirm a sub-agent's seeded change and run the checks against it.

usage: eval_seeded.py <seed dir> <k> <worktree>
Prints one JSON line: confirmation results + which checks fire.
"""
import json, os, subprocess, sys

seed, k, wt = sys.argv[1], sys.argv[2], sys.argv[3]
patch = os.path.join(seed, f"patch{k}.diff")
demo = os.path.join(seed, f"demo{k}.py")
env = dict(os.environ, PYTHONPATH=wt, MPLBACKEND="Agg")


def sh(cmd, **kw):
    return subprocess.run(cmd, shell=True, capture_output=True, text=True, **kw)


out = {"seed": seed, "k": k}
sh(f"git -C {wt} checkout -- . && git -C {wt} clean -fdq")
r = sh(f"cd {wt} && /venv/bin/python {demo}", env=env)
out["demo_clean_rc"] = r.returncode
a = sh(f"git -C {wt} apply {patch}")
out["apply_rc"] = a.returncode
if a.returncode == 0:
    r = sh(f"cd {wt} && /venv/bin/python {demo}", env=env)
    out["demo_patched_rc"] = r.returncode
    out["demo_patched_tail"] = (r.stdout + r.stderr).strip().splitlines()[-1:] 
    t = sh(f"cd {wt} && /venv/bin/python -m pytest -q -p no:cacheprovider "
           "--timeout=900 --continue-on-collection-errors 2>&1 | tail -1", env=env)
    out["suite"] = t.stdout.strip()
    fired = {}
    for pid in ["C01", "C03", "C04", "C05", "C06", "C08", "C09", "C10", "C11",
                "C12", "C13", "C14", "C15", "C16", "C17", "C18", "C19", "C20", "C02", "C07"]:
        c = sh(f"cd /verif && SA_NO_EVIDENCE=1 /venv/bin/python -m sa check {pid} --root {wt}")
        if c.returncode != 0:
            rules = sorted({l.split("rule=")[1].split()[0] for l in c.stdout.splitlines()
                            if l.strip().startswith("rule=")})
            fired[pid] = {"rc": c.returncode, "rules": rules}
            if c.returncode == 2:
                fired[pid]["err"] = [l for l in c.stdout.splitlines() if "ANALYSIS-ERROR" in l][:1]
    out["fired"] = fired
sh(f"git -C {wt} checkout -- . && git -C {wt} clean -fdq")
print(json.dumps(out))
