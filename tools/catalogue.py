#!/usr/bin/env python3
"""Regenerate DESIGN.md section 6.1 (which check catches which change) from
sa/selftest.py.  usage: catalogue.py [--splice]"""
import os, re, sys
HERE = os.path.dirname(os.path.dirname(os.path.abspath(__file__)))
sys.path.insert(0, HERE)
from sa import selftest as S

lines = []
lines.append("### 6.1 Catalogue as built (which check catches which change)")
lines.append("")
pairs = sum(len(m[1]) for m in S.MUTANTS)
lines.append(
    f"`sa/selftest.py` holds {len(S.MUTANTS)} hand-written single-instance "
    f"breaks, {len(S.SEEDED)} sub-agent changes with the rule that must fire "
    f"(§6.2), {len(S.NEUTRAL)} behaviour-preserving text edits and "
    f"{len(S.NEUTRAL_PATCHES)} behaviour-preserving refactoring patches "
    "(§6.3). A break is an exact text edit (or patch) applied to a scratch "
    "copy; it lists the properties whose check must exit 1 *with the named "
    "rule among the violations*; a neutral edit lists the properties that "
    "must exit 0 (the refactoring patches are run against all 18 claimed "
    "properties). A variant whose anchor text no longer matches exactly once "
    "(or whose patch no longer applies) is reported as `stale` and skipped "
    "(never a failure; stale patches are re-applied by hand and "
    "re-confirmed, see the `rebased` notes). The last committed run is "
    "recorded in §6.4.")
lines.append("")
lines.append("| variant | rule that must fire | properties | file |")
lines.append("|---------|--------------------|------------|------|")
for m in S.MUTANTS:
    name, props, rule, rel = m[0], m[1], m[2], m[3]
    lines.append(f"| `{name}` | {rule} | {', '.join(props)} | "
                 f"`{os.path.basename(rel)}` |")
lines.append("")
text = "\n".join(lines) + "\n"
if "--splice" in sys.argv:
    p = os.path.join(HERE, "DESIGN.md")
    s = open(p).read()
    i = s.index("### 6.1 Catalogue as built")
    j = s.index("### 6.2 ", i)
    s = s[:i] + text + "\n" + s[j:]
    open(p, "w").write(s)
    print("spliced", len(S.MUTANTS), "rows")
else:
    print(text)
