#!/usr/bin/env python3
"""Validate MANIFEST.json and evidence/*.json against the schemas (python3-vt)."""
import glob, json, sys
import jsonschema
ok = True
man = json.load(open('/verif/MANIFEST.json'))
try:
    jsonschema.validate(man, json.load(open('/root/.vp/MANIFEST.schema.json')))
    print('MANIFEST ok,', len(man['checks']), 'checks')
except Exception as e:
    ok = False; print('MANIFEST INVALID', e)
es = json.load(open('/root/.vp/EVIDENCE.schema.json'))
for f in sorted(glob.glob('/verif/evidence/*.json')):
    try:
        jsonschema.validate(json.load(open(f)), es)
        print('ok', f)
    except Exception as e:
        ok = False; print('INVALID', f, str(e)[:300])
sys.exit(0 if ok else 1)
