#!/bin/bash
# evp.sh <patch file> <prop>...: apply a patch to a scratch copy and print what fires
pf=$1; shift
scr=$(mktemp -d /tmp/evs.XXXXXX)
cp -r /repo/geometry_tools $scr/
(cd $scr && patch -p1 -s < $pf) || { echo "PATCH FAILED"; rm -rf $scr; exit 3; }
for c in "$@"; do
  SA_NO_EVIDENCE=1 /venv/bin/python -m sa check $c --root $scr 2>&1 | grep -A2 "^VIOL\|ANALYSIS" | grep "rule=\|ANALYSIS" | head -4 | sed "s/^/$c /" | cut -c1-300
done
rm -rf $scr
